#!/usr/bin/env python3
"""Regenerate MANIFEST.json from lib/registry.py + the table below."""
import json, os, sys
sys.path.insert(0, os.path.join(os.path.dirname(os.path.abspath(__file__)), "..", "lib"))
import registry

ALL = [f"C{n:02d}" for n in range(1, 21)]
TEXT = registry.MANIFEST_TEXT
NA = registry.NOT_APPLICABLE
checks = []
for pid in ALL:
    if pid not in registry.PROPS or pid in NA:
        continue
    t = TEXT[pid]
    checks.append({
        "property_id": pid,
        "quick_cmd": f"./check {pid} --tier quick",
        "thorough_cmd": f"./check {pid} --tier thorough",
        "evidence_file": f"/verif/evidence/{pid}.json",
        "replay_cmd_template": "./check --replay {path}",
        "engine": "kani-cbmc",
        "level_claimed": {"category": "model_checking", "text": t["text"], "design_ref": t.get("design_ref", "DESIGN.md section 4")},
        "level_note": t["note"],
        "technique": t.get("technique", "bounded model checking of the compiled Rust code (Kani 0.68 -> CBMC 6.11 -> CaDiCaL SAT), symbolic inputs via kani::any(), unwinding assertions on"),
    })
na = [{"property_id": p, "reason": NA.get(p, "no check built yet (work in progress; see DESIGN.md section 4 for the plan)")}
      for p in ALL if p in NA or p not in registry.PROPS]
m = {
    "version": 1,
    "setup_cmd": "./tools/setup.sh",
    "hooks": {
        "guard": "cargo feature `verif-hooks` (tower-resilience-core, forwarded by retry/adaptive)",
        "enable": "the check driver builds the overlay copy of /repo with `--features verif-hooks` for the harnesses that need instrumented atomics; all other harnesses use no hook",
        "baseline_off_cmd": "cd /repo && cargo test --workspace --no-fail-fast --offline",
        "source_commits": registry.HOOK_COMMITS,
        "add_only": True,
    },
    "engines": [{"name": "kani-cbmc", "path": "/verif/check", "serves_properties": [c["property_id"] for c in checks],
                 "kind_free_text": "Python driver: rsync /repo -> scratch overlay, inject #[cfg(kani)] harness modules and [patch.crates-io] environment models, cargo kani per harness (parallel), parse CBMC verdicts, concrete-playback replay, evidence"}],
    "checks": checks,
    "notes": "Solver-based checking only (Kani/CBMC). exit 0 held / 1 VIOLATION (replayed) / 2 inconclusive (timeout, OOM, build failure, vacuity, non-reproducing trace). See DESIGN.md.",
    "not_applicable": na,
}
json.dump(m, open(os.path.join(os.path.dirname(os.path.abspath(__file__)), "..", "MANIFEST.json"), "w"), indent=1)
print("checks:", [c["property_id"] for c in checks], "n/a:", [e["property_id"] for e in na])
