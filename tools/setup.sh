#!/bin/bash
# Offline setup: nothing to fetch.  Verifies the toolchain and validates the tokio contract
# model against REAL tokio (models/conformance: same scripted scenarios through both).
set -e -o pipefail
cd "$(dirname "$0")/.."
export CARGO_NET_OFFLINE=true
cargo kani --version >/dev/null
which cbmc rsync python3 >/dev/null
mkdir -p evidence replays build
( cd models/conformance && CARGO_TARGET_DIR=/verif/build/conformance-target cargo test --offline --quiet 2>&1 | grep -E "test result|FAILED|panicked" )
echo "setup ok"
