#!/bin/bash
# Offline setup: nothing to fetch or build ahead of time — every check builds
# its own overlay of /repo with cargo-kani.  We only verify the toolchain.
set -e
cd "$(dirname "$0")/.."
export CARGO_NET_OFFLINE=true
cargo kani --version >/dev/null
which cbmc rsync python3 >/dev/null
mkdir -p evidence replays
echo "setup ok"
