#!/bin/bash
# Validation aid: run the thorough-only harnesses of every property (no evidence), record outcomes.
cd /verif
out=build/extras_${EXTRAS_TAG:-a}.txt; : > $out
for p in "$@"; do
  s=$(date +%s)
  ./check $p --tier thorough --extras-only --no-evidence > build/extras_$p.out 2> build/extras_$p.err; rc=$?
  echo "$p exit=$rc wall=$(( $(date +%s) - s ))s" | tee -a $out
  grep -E "inconclusive|fail \(" build/extras_$p.err | cut -c1-200 >> $out
done
