#!/usr/bin/env python3
"""confirm_mutant.py <worktree> <mutant_dir> <seed_id>
Re-confirm a sub-agent's mutant in its scratch worktree: demo passes on the
clean tree, fails with the patch, existing tests of the touched crates pass
with the patch.  On success store it under /verif/seeded/<seed_id>/."""
import json, os, re, shutil, subprocess, sys
wt, md, sid = sys.argv[1:4]
env = dict(os.environ, CARGO_TARGET_DIR=os.path.join(wt, "target"), CARGO_NET_OFFLINE="true")
def sh(cmd, **kw):
    return subprocess.run(cmd, shell=True, cwd=wt, env=env, stdout=subprocess.PIPE, stderr=subprocess.STDOUT, text=True, **kw)
def clean():
    sh("git checkout -- . && git clean -fdq -e mutants -e target")
    sh("find crates tests -name 'mutant_demo*' -delete 2>/dev/null; true")
demo = open(os.path.join(md, "demo.rs")).read()
m = re.match(r"//\s*place at\s+(\S+)", demo)
assert m, "demo.rs lacks placement comment"
dpath = m.group(1)
pm = re.match(r"crates/([^/]+)/tests/([^/.]+)\.rs", dpath)
if pm:
    pkg, tname = pm.groups()
else:
    pm = re.match(r"tests/(?:[^/]+/)*([^/.]+)\.rs", dpath)
    pkg, tname = "tower-resilience-tests", pm.group(1)
demo_cmd = f"cargo test --offline -p {pkg} --test {tname}"
patch = os.path.join(md, "patch.diff")
touched = sorted(set(re.findall(r"^\+\+\+ b/crates/([^/]+)/", open(patch).read(), re.M)))
res = {}
clean()
os.makedirs(os.path.join(wt, os.path.dirname(dpath)), exist_ok=True)
open(os.path.join(wt, dpath), "w").write(demo)
r = sh(demo_cmd); res["demo_clean_rc"] = r.returncode; res["demo_clean_tail"] = r.stdout[-600:]
a = sh(f"git apply {patch}"); assert a.returncode == 0, a.stdout
r = sh(demo_cmd); res["demo_patched_rc"] = r.returncode; res["demo_patched_tail"] = r.stdout[-1200:]
os.remove(os.path.join(wt, dpath))
ex = "cargo test --offline " + " ".join(f"-p {t}" for t in touched) + " --lib --tests"
r = sh(ex); res["existing_rc"] = r.returncode; res["existing_tail"] = r.stdout[-800:]
res["existing_cmd"] = ex; res["demo_cmd"] = demo_cmd
clean()
ok = res["demo_clean_rc"] == 0 and res["demo_patched_rc"] != 0 and res["existing_rc"] == 0
print(sid, "CONFIRMED" if ok else "REJECTED", {k: v for k, v in res.items() if k.endswith("_rc")})
if ok:
    out = os.path.join("/verif/seeded", sid)
    os.makedirs(out, exist_ok=True)
    shutil.copy(patch, os.path.join(out, "patch.diff"))
    shutil.copy(os.path.join(md, "demo.rs"), os.path.join(out, "demo.rs"))
    meta = json.load(open(os.path.join(md, "meta.json")))
    meta["confirmed_by_me"] = {"demo_cmd": demo_cmd, "existing_tests_cmd": ex, "demo_passes_clean": True,
                               "demo_fails_patched": True, "existing_tests_pass_patched": True,
                               "demo_failure_tail": res["demo_patched_tail"][-500:]}
    json.dump(meta, open(os.path.join(out, "meta.json"), "w"), indent=1)
else:
    print(json.dumps(res, indent=1)[-3000:])
