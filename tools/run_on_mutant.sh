#!/bin/bash
# run_on_mutant.sh <seed_id> <prop> [tier] [extra check args]: apply seeded patch to /repo, run the check, always revert.
sid=$1; prop=$2; tier=${3:-quick}; shift 3
cd /verif
[ -z "$(git -C /repo status --porcelain)" ] || { echo "/repo dirty"; exit 9; }
git -C /repo apply /verif/seeded/$sid/patch.diff || exit 9
out=$(./check $prop --tier $tier --no-evidence "$@" 2>/tmp/run_on_mutant.$sid.err); rc=$?
git -C /repo checkout -- . ; git -C /repo clean -fdq
echo "$out"
echo "[$sid on $prop/$tier] exit=$rc"
python3 - "$sid" "$prop" "$tier" "$rc" "$out" <<'PY'
import json,sys,os,time
sid,prop,tier,rc,out=sys.argv[1:6]
p=f"/verif/seeded/{sid}/result.json"
d=json.load(open(p)) if os.path.exists(p) else {}
d[f"{prop}/{tier}"]={"exit":int(rc),"stdout":out[-600:],"when":time.strftime("%F %T")}
json.dump(d,open(p,"w"),indent=1)
PY
