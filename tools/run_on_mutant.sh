#!/bin/bash
# run_on_mutant.sh <seed_id> <prop> [tier] [extra check args]
# Runs the check against a scratch COPY of /repo's working tree with the seeded patch
# applied (VERIF_REPO), so /repo itself is never left modified while other checks run.
sid=$1; prop=$2; tier=${3:-quick}; shift 3
cd /verif
mr=/var/tmp/mutrepo-$sid-$$
rm -rf $mr; mkdir -p $mr
rsync -a --exclude /target --exclude .git /repo/ $mr/
pf=/verif/seeded/$sid/patch.diff; [ -f /verif/seeded/$sid/patch_rebased.diff ] && pf=/verif/seeded/$sid/patch_rebased.diff
( cd $mr && ( git apply $pf 2>/dev/null || patch -p1 -F3 -s < $pf ) ) || { echo "[$sid] patch does not apply to the current tree"; rm -rf $mr; exit 9; }
out=$(VERIF_REPO=$mr ./check $prop --tier $tier --no-evidence "$@" 2>/tmp/run_on_mutant.$sid.err); rc=$?
rm -rf $mr
echo "$out"
echo "[$sid on $prop/$tier] exit=$rc"
python3 - "$sid" "$prop" "$tier" "$rc" "$out" <<'PY'
import json,sys,os,time
sid,prop,tier,rc,out=sys.argv[1:6]
p=f"/verif/seeded/{sid}/result.json"
d=json.load(open(p)) if os.path.exists(p) else {}
d[f"{prop}/{tier}"]={"exit":int(rc),"stdout":out[-600:],"when":time.strftime("%F %T")}
json.dump(d,open(p,"w"),indent=1)
PY
