#!/usr/bin/env python3
"""Regenerate SEEDED.md: seeded changes and which check caught them."""
import json, os, glob
rows = []
for d in sorted(glob.glob('/verif/seeded/*')):
    sid = os.path.basename(d)
    meta = json.load(open(d + '/meta.json')) if os.path.exists(d + '/meta.json') else {}
    res = json.load(open(d + '/result.json')) if os.path.exists(d + '/result.json') else {}
    runs = []
    for k, v in sorted(res.items()):
        verdict = {0: 'MISSED (exit 0)', 1: 'caught (VIOLATION)', 2: 'inconclusive (exit 2)', 9: 'patch does not apply'}.get(v['exit'], str(v['exit']))
        runs.append(f"{k}: {verdict}")
    rows.append((sid, meta.get('property', ''), (meta.get('summary', '') or '')[:160].replace('|', '/').replace('\n', ' '), (meta.get('needs', '') or '')[:120].replace('|', '/').replace('\n', ' '), '; '.join(runs) or 'not run yet'))
with open('/verif/SEEDED.md', 'w') as f:
    f.write('# Seeded changes and what catches them\n\n| id | property | change | needs | result of the check |\n|---|---|---|---|---|\n')
    for r in rows:
        f.write('| ' + ' | '.join(r) + ' |\n')
print(len(rows), 'rows')
