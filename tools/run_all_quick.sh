#!/bin/bash
# Runs every registered check's quick command sequentially (writes evidence), records exit code and wall time.
cd /verif
out=build/quick_times_${QTAG:-a}.txt; mkdir -p build; : > $out
for p in "$@"; do
  s=$(date +%s)
  ./check $p --tier quick > build/quick_$p.out 2> build/quick_$p.err; rc=$?
  e=$(( $(date +%s) - s ))
  echo "$p exit=$rc wall=${e}s $(grep -c 'KNOWN-FINDING' build/quick_$p.out) known" | tee -a $out
done
