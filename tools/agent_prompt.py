#!/usr/bin/env python3
"""Print the prompt given to a mutant-writing sub-agent: ONLY the property
text and its scratch worktree; nothing about /verif's checks."""
import json, sys
pid, wt = sys.argv[1], sys.argv[2]
n = sys.argv[3] if len(sys.argv) > 3 else "3"
p = next(json.loads(l) for l in open('/verif/properties.jsonl') if json.loads(l)['id'] == pid)
print(f"""You are working on a scratch git worktree of the Rust project tower-resilience (Tower middleware: circuit breaker, bulkhead, retry, rate limiter, cache, hedge, coalesce, adaptive, chaos ...) at {wt}. Work ONLY inside {wt}; never read or modify /repo or /verif. The sandbox is offline: always use `cargo ... --offline` with `CARGO_TARGET_DIR={wt}/target`. Build and test only the crates you touch (`cargo test --offline -p <crate>`), not the whole workspace, to save time; additionally run the top-level integration tests that mention the crate if they are cheap (`cargo test --offline -p tower-resilience-tests --test <name>`).

This is a mutation-seeding exercise for evaluating a verification tool. Here is a semantic property the code base is supposed to satisfy:

ID: {p['id']} — {p['title']}
STATEMENT: {p['statement']}
QUANTIFIED OVER: {p['quantifier']['text']}
RELEVANT FILES: {', '.join(p['anchors']['files'])}

Your task: write {n} DIFFERENT, independent source changes ("mutants") to the library code (not to tests), each of which
  (a) still compiles and passes ALL existing tests of the crates it touches (unit tests, doc tests excluded is fine, and tests/ dirs), unedited;
  (b) genuinely breaks the property above (a realistic bug a developer could introduce: an off-by-one, a wrong comparison, a missing clamp, a reordered step, a forgotten release, a stale read, an edge case regression, a refactor that subtly changes semantics ...);
  (c) needs something SPECIFIC to manifest — a particular interleaving or poll order, a cancellation/drop at a particular point, a multi-step sequence of operations, an unusual input or configuration value, a boundary instant, or two cooperating sites that each look fine alone — NOT something ordinary use would expose at once;
  (d) is small (a few lines) and touches only code relevant to the property. Mutants should differ from each other in mechanism and location.

For each mutant k = 1..{n}:
  1. Start from a clean tree (`git -C {wt} checkout -- . && git -C {wt} clean -fdq -e mutants -e target`).
  2. Make the change, verify (a) by running the existing tests.
  3. Write a demonstration: a NEW integration test file (e.g. crates/<crate>/tests/mutant_demo_k.rs, or a unit test module appended in a new file) that FAILS with your change and PASSES on the clean tree. Verify both directions yourself. Use tokio's paused clock (`#[tokio::test(start_paused = true)]`, needs tokio "test-util" feature — check the crate's dev-dependencies; if not available use real short sleeps) where timing matters, so the demo is deterministic.
  4. Save into {wt}/mutants/m<k>/ : `patch.diff` (output of `git diff` for the LIBRARY change only, applicable with `git apply` at the repo root), `demo.rs` (the demonstration test file, plus a first-line comment saying where it must be placed, e.g. `// place at crates/tower-resilience-retry/tests/mutant_demo_1.rs`), and `meta.json` with keys: property, summary (what the change does), needs (what specific condition is needed to manifest), files (touched files), test_cmds (the exact commands you ran for existing tests and for the demo), existing_tests_pass (bool), demo_fails_with_patch (bool), demo_passes_without_patch (bool).
  5. Revert the tree to clean before the next mutant.

Do not commit anything and NEVER use `git stash` (the stash is shared between worktrees of the same repository); to get a clean tree use `git checkout -- .`. When done, leave the worktree clean (only {wt}/mutants/ and {wt}/target extra) and reply with a short summary listing each mutant: the file/lines changed, the mechanism, and what it needs to manifest. If a mutant attempt turns out to be caught by existing tests, discard it and try another idea. If you discover that the UNMODIFIED code already violates the property in some way, mention it briefly at the end but still deliver mutants that introduce NEW violations distinct from that.""")
