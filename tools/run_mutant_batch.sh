#!/bin/bash
# run_mutant_batch.sh <seed ids...>: run each seeded change against the check of its property (quick tier), sequentially.
cd /verif
for sid in "$@"; do
  prop=${sid%%-*}
  tools/run_on_mutant.sh $sid $prop quick 2>&1 | tail -3
done
python3 tools/seeded_table.py
