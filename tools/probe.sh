#!/bin/bash
# dev helper: probe.sh <overlay-root> <pkg> <harness> <timeout_s> [extra kani args...]
root=$1; pkg=$2; h=$3; to=$4; shift 4
base=$(ls -d $root/base-* | grep -v log | head -1)
t=$root/probe-tgt-$(echo $h | tr ':' '_')
[ -d $t ] || cp -a $base $t
cd $root/ov
start=$(date +%s)
( ulimit -v 16000000; CARGO_NET_OFFLINE=true timeout $to cargo kani -p $pkg --target-dir $t --harness $h --exact -Z stubbing -Z unstable-options "$@" > $root/probe-$(echo $h | tr ':' '_').log 2>&1 )
echo "$h rc=$? $(( $(date +%s) - start ))s $(grep 'VERIFICATION\|Failed Checks' $root/probe-$(echo $h | tr ':' '_').log | tr '\n' ' ')"
