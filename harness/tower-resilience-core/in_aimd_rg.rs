//! C13 / C08 — rely/guarantee harness for `AimdController` with instrumented
//! atomics (feature `verif-hooks`): before every atomic step of the operation
//! under analysis another thread may have stored ANY limit in [min,max]; every
//! write the operation performs (store, fetch_add, fetch_sub, CAS) must leave the
//! limit in [min,max] given the value that is actually in the cell.
use super::*;
use crate::verif::AtomicOp;

struct G {
    magic: [u64; 2],
    cell: usize,
    min: u64,
    max: u64,
    left: u8,
    bad_writes: u32,
    writes: u32,
}
static mut GH: G = G { magic: [0x41494d445f52475f, 0x4331335f484f4f4b], cell: 0, min: 0, max: 0, left: 0, bad_writes: 0, writes: 0 };
fn gh() -> &'static mut G {
    unsafe { &mut *core::ptr::addr_of_mut!(GH) }
}
fn hook(cell: usize, op: AtomicOp) -> bool {
    use std::sync::atomic::Ordering::Relaxed;
    let g = gh();
    if cell != g.cell {
        return false;
    }
    let raw = unsafe { &*(cell as *const std::sync::atomic::AtomicUsize) };
    if g.left > 0 && kani::any() {
        g.left -= 1;
        let v: u64 = kani::any();
        kani::assume(v >= g.min && v <= g.max);
        raw.store(v as usize, Relaxed);
    }
    let before = raw.load(Relaxed) as u64;
    let after = match op {
        AtomicOp::Load => return false,
        AtomicOp::Store { new } => Some(new),
        AtomicOp::Cas { expected, new, .. } => if expected == before { Some(new) } else { None },
        AtomicOp::FetchAdd { delta } => Some(before.wrapping_add(delta)),
        AtomicOp::FetchSub { delta } => Some(before.wrapping_sub(delta)),
    };
    if let Some(a) = after {
        g.writes += 1;
        if a < g.min || a > g.max {
            g.bad_writes += 1;
        }
    }
    false
}

#[kani::proof]
#[kani::unwind(5)]
#[kani::stub(crate::verif::atomic_event, hook)]
fn aimd_every_write_in_bounds_under_interference() {
    let min: usize = kani::any();
    let max: usize = kani::any();
    let df: f64 = kani::any();
    kani::assume(min <= max && max <= (1usize << 32));
    kani::assume(df >= 0.0 && df <= 1.0);
    let c = AimdController::new(AimdConfig { initial_limit: kani::any(), min_limit: min, max_limit: max, increase_by: kani::any(), decrease_factor: df });
    let g = gh();
    g.cell = c.limit.addr();
    g.min = min as u64;
    g.max = max as u64;
    g.left = 2;
    let op: u8 = kani::any();
    match op % 4 {
        0 => c.record_success(),
        1 => c.record_failure(),
        2 => c.record_successes(kani::any()),
        _ => c.reset(),
    }
    assert!(gh().bad_writes == 0, "[C13.aimd_writes_in_bounds_concurrent] under interference by other threads every write of the limit stays within [min_limit, max_limit]");
    let l = c.limit.load(Ordering::Relaxed);
    assert!(l >= min && l <= max, "[C13.aimd_limit_bounds_concurrent] the limit stays within [min_limit, max_limit] for every interleaving");
    kani::cover!(gh().writes == 1 && gh().left == 0, "write after two interferences");
}
