//! C20 (listener part) — `EventListeners::emit` delivers every event to every
//! registered listener exactly once, in registration order, and does nothing
//! else.  Panicking listeners are NOT covered: Kani has no unwinding (and
//! cannot even compile `catch_unwind`, which is stubbed by `Ok(f())` here).
use crate::events::{EventListener, EventListeners, ResilienceEvent};
use std::panic::catch_unwind;
use std::time::Instant;

#[derive(Debug)]
struct Ev(u32);
impl ResilienceEvent for Ev {
    fn event_type(&self) -> &'static str { "ev" }
    fn timestamp(&self) -> Instant { crate::verif_kani::env::instant_at(std::time::Duration::ZERO) }
    fn pattern_name(&self) -> &str { "" }
}
struct G { magic: [u64; 2], log: [(u8, u32); 8], n: usize }
static mut GH: G = G { magic: [0x4556454e54535f43, 0x32305f4c4f475f21], log: [(9, 0); 8], n: 0 };
fn gh() -> &'static mut G { unsafe { &mut *core::ptr::addr_of_mut!(GH) } }
struct L(u8);
impl EventListener<Ev> for L {
    fn on_event(&self, e: &Ev) {
        let g = gh();
        if g.n < 8 { g.log[g.n] = (self.0, e.0); }
        g.n += 1;
    }
}

#[kani::proof]
#[kani::unwind(5)]
#[kani::stub(catch_unwind, crate::verif_kani::env::catch_unwind_stub)]
fn listeners_receive_every_event_in_order() {
    let n: u8 = kani::any();
    kani::assume(n <= 3);
    let mut ls: EventListeners<Ev> = EventListeners::new();
    let mut i = 0;
    while i < n {
        ls.add(L(i));
        i += 1;
    }
    assert!(ls.len() == n as usize && ls.is_empty() == (n == 0), "[C20.listener_count] listeners are registered");
    let (a, b): (u32, u32) = (kani::any(), kani::any());
    ls.emit(&Ev(a));
    ls.emit(&Ev(b));
    let g = gh();
    assert!(g.n == 2 * n as usize, "[C20.listeners_each_event_once] every listener receives every event exactly once");
    let mut k = 0;
    while k < n as usize {
        assert!(g.log[k] == (k as u8, a) && g.log[n as usize + k] == (k as u8, b), "[C20.listeners_in_order] events are delivered in order, to the listeners in registration order");
        k += 1;
    }
    std::mem::forget(ls);
}
