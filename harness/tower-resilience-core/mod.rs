//! In-crate Kani harnesses for tower-resilience-core.
pub mod env;
pub mod c20;
