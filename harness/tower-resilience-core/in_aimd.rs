//! C13 (limit stays within [min,max]) — AimdController, child module of `aimd`.
//!
//! Every operation performs ONE load and ONE store of the limit.  Other threads
//! can only interfere through the value that is loaded (any value they may have
//! stored) and by being overwritten by our store.  So: "from an ARBITRARY limit
//! in [min,max] every operation stores a value in [min,max]" (this harness)
//! implies the invariant for every interleaving of any number of threads.
use super::*;

fn any_cfg() -> AimdConfig {
    let min: usize = kani::any();
    let max: usize = kani::any();
    let df: f64 = kani::any();
    kani::assume(min <= max && max <= (1usize << 32));
    kani::assume(df >= 0.0 && df <= 1.0);
    AimdConfig { initial_limit: kani::any(), min_limit: min, max_limit: max, increase_by: kani::any(), decrease_factor: df }
}

#[kani::proof]
fn aimd_limit_in_bounds_step() {
    let cfg = any_cfg();
    let (min, max) = (cfg.min_limit, cfg.max_limit);
    let c = AimdController::new(cfg);
    assert!(c.limit() >= min && c.limit() <= max, "[C13.aimd_initial_clamped] the initial limit is clamped into [min,max]");
    // arbitrary value other threads may have left
    let v: usize = kani::any();
    kani::assume(v >= min && v <= max);
    c.limit.store(v, Ordering::Relaxed);
    let op: u8 = kani::any();
    match op % 4 {
        0 => c.record_success(),
        1 => c.record_failure(),
        2 => c.record_successes(kani::any()),
        _ => c.reset(),
    }
    let l = c.limit();
    assert!(l >= min, "[C13.aimd_limit_ge_min] the limit never drops below min_limit");
    assert!(l <= max, "[C13.aimd_limit_le_max] the limit never exceeds max_limit");
    if op % 4 == 0 || op % 4 == 2 {
        assert!(l >= v, "[C13.aimd_success_never_decreases] a success never lowers the limit");
    }
    if op % 4 == 1 {
        assert!(l <= v, "[C13.aimd_failure_never_increases] a failure never raises the limit");
    }
    kani::cover!(op % 4 == 1 && l == min && v > min, "decrease clamped at min");
    kani::cover!(op % 4 == 0 && l == max && v < max, "increase clamped at max");
}
