//! In-crate Kani harnesses for tower-resilience-bulkhead.
pub mod env;
pub mod svc;
pub mod c01;
