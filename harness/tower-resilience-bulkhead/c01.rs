//! C01 / C07 (and the bulkhead part of C20) — protocol harness for ONE call
//! through the real `Bulkhead::call` future.
//!
//! Assume/guarantee: the shared object all callers synchronise on is tokio's
//! semaphore (environment, modelled by its contract: at most N permits
//! outstanding, a dropped permit is returned, a cancelled waiter holds
//! nothing).  What the repository's code must guarantee, for every schedule of
//! its own polls, every clock value, every answer of the semaphore, every inner
//! outcome and every drop point, is the per-caller protocol:
//!   P1  the inner service is entered only while this caller holds a permit;
//!   P2  the permit is held until the inner future has completed or been dropped;
//!   P3  the permit is released exactly once on every exit (incl. cancellation);
//!   P4  one semaphore with max_concurrent_calls permits per layer(), shared by clones.
//! P1-P4 for every caller + the semaphore contract  =>  at most
//! max_concurrent_calls requests are inside the inner service (C01) and no
//! capacity is ever lost (C07).
use crate::config::BulkheadConfig;
use crate::error::{BulkheadError, BulkheadServiceError};
use crate::service::Bulkhead;
use crate::verif_kani::svc::{self, mon, Inner, InnerErr};
use std::panic::catch_unwind;
use std::task::Poll;
use std::time::Duration;
use tokio::model::{self, st, Avail};
use tower::Service;

fn any_millis(max_ms: u64) -> Duration {
    // whole milliseconds, built without division (symbolic 64-bit div/rem stalls the bit-blaster)
    let secs: u64 = kani::any();
    let ms: u32 = kani::any();
    kani::assume(ms < 1000 && secs <= max_ms / 1000 && (secs < max_ms / 1000 || (ms as u64) <= max_ms % 1000));
    Duration::new(secs, ms * 1_000_000)
}

fn mk(max_wait: Option<Duration>, max_calls: usize) -> (Bulkhead<Inner>, svc::Script) {
    let cfg = BulkheadConfig {
        max_concurrent_calls: max_calls,
        max_wait_duration: max_wait,
        name: String::new(),
        event_listeners: tower_resilience_core::EventListeners::new(),
    };
    let script = svc::any_script();
    // through the public layer (not the crate-internal constructor), as users build it
    (tower_layer::Layer::layer(&crate::layer::BulkheadLayer::new(cfg), Inner::new(script)), script)
}

fn any_wait() -> Option<Duration> {
    let k: u8 = kani::any();
    match k % 3 {
        0 => None,
        1 => Some(Duration::ZERO),
        _ => Some(any_millis(60_000)),
    }
}

/// One call, every schedule: up to 3 steps, each either "advance the clock by an
/// arbitrary amount and poll" or "drop the call future".
fn one_call(avail: Avail, steps: usize) {
    let max_calls: usize = kani::any();
    kani::assume(max_calls >= 1 && max_calls <= 1000);
    let wait = any_wait();
    let (mut b, script) = mk(wait, max_calls);
    st().sem_avail = avail;
    st().sem_reported_available = kani::any();
    kani::assume(st().sem_reported_available < max_calls); // this caller holds one when it asks
    assert!(st().sem_created == 1 && st().sem_capacity == max_calls,
        "[C01.one_semaphore_per_layer] one semaphore with max_concurrent_calls permits");
    let req: u32 = kani::any();
    let mut arrival = model::now();
    let _ = svc::poll_ready_once(&mut b);
    let mut fut = Some(b.call(req));
    assert!(mon().calls == 0, "[C07.no_entry_before_permit] call() itself does not enter the inner service");
    let mut result: Option<Result<u32, BulkheadServiceError<InnerErr>>> = None;
    let mut step = 0;
    let mut first_poll = true;
    while step < steps {
        if result.is_some() || fut.is_none() {
            break;
        }
        if kani::any() {
            // cancellation at this point (before first poll / while queued / while running)
            fut = None;
            break;
        }
        model::advance(any_millis(40_000));
        if first_poll {
            arrival = model::now(); // the caller arrives (starts waiting) at its first poll
        }
        let was_entered = mon().calls > 0;
        let p = svc::poll_once(fut.as_mut().unwrap().as_mut());
        // ---- P1 / P2 at every step
        if mon().calls > 0 {
            assert!(mon().permits_at_entry == 1, "[C01.enter_only_with_permit] the inner service is entered only while the caller holds a permit");
        }
        if mon().live > 0 {
            assert!(st().permits_held == 1, "[C01.permit_held_while_inside] the permit is held while the request is inside the inner service");
        }
        if first_poll {
            assert!(st().acquires_started == 1, "[C07.asks_at_once] the caller asks for a slot at its first poll");
        }
        if st().permits_granted_total == 1 && !was_entered {
            // the slot was granted during this poll (at the first poll when a slot is free)
            assert!(mon().calls == 1, "[C07.admitted_at_once] a caller that gets a slot enters the inner service in the same poll");
        }
        if !was_entered && mon().calls == 0 {
            if let (Some(d), Poll::Pending) = (wait, &p) {
                assert!(model::now() < arrival + d, "[C07.timeout_exact] a waiting caller is rejected at the first poll at or after arrival + max_wait_duration");
            }
        }
        first_poll = false;
        if let Poll::Ready(r) = p {
            result = Some(r);
            fut = None;
        }
        step += 1;
    }
    let finished = result.is_some();
    drop(fut); // drop whatever is left (cancellation at the end of the schedule)
    // ---- P3: on every exit nothing is held, nothing leaked, released exactly once per grant
    assert!(st().permits_held == 0, "[C07.no_capacity_lost] after the call future is gone no permit is held");
    assert!(st().permits_released_total == st().permits_granted_total, "[C07.release_exactly_once] every granted permit is released exactly once");
    assert!(st().sem_added == 0 && !st().sem_closed, "[C01.capacity_never_changed] the bulkhead never adds permits to (or closes) its semaphore: capacity stays max_concurrent_calls");
    assert!(st().permits_granted_total <= 1 && st().acquires_started <= 1, "[C01.single_acquire] one acquire per call");
    assert!(mon().live == 0, "[C01.inner_gone_with_call] the inner future does not outlive the call future");
    assert!(mon().min_permits_while_live >= 1 || mon().calls == 0, "[C01.permit_outlives_inner] the permit is released only after the inner future completed or was dropped");
    assert!(mon().calls <= 1, "[C20.bulkhead_once] the request is forwarded at most once");
    assert!(mon().unready_calls == 0, "[C20.bulkhead_ready_instance] the call goes to the instance on which readiness was observed");
    if let Some(r) = result {
        match r {
            Ok(v) => {
                assert!(mon().calls == 1 && mon().completed == 1 && mon().last_req == req, "[C20.bulkhead_forwards] forwarded unchanged, exactly once");
                assert!(script.outcomes[0] == Ok(v), "[C20.bulkhead_response_unchanged] the inner response is returned unchanged");
            }
            Err(BulkheadServiceError::Inner(e)) => {
                assert!(mon().calls == 1 && mon().completed == 1 && script.outcomes[0] == Err(e.0), "[C20.bulkhead_error_unchanged] the inner error is returned unchanged in the Inner variant");
            }
            Err(BulkheadServiceError::Bulkhead(BulkheadError::Timeout)) => {
                assert!(mon().calls == 0, "[C07.rejected_never_enters] a rejected caller never reaches the inner service");
                assert!(wait.is_some() && model::now() >= arrival + wait.unwrap(), "[C07.reject_only_by_timeout] rejection only after max_wait_duration");
                assert!(st().permits_granted_total == 0, "[C07.rejected_holds_nothing] a rejected caller was never granted a permit");
            }
            Err(BulkheadServiceError::Bulkhead(BulkheadError::BulkheadFull { .. })) => {
                assert!(false, "[C07.full_only_when_closed] BulkheadFull is reported only for a closed semaphore");
            }
        }
    } else {
        // cancelled
        if st().permits_granted_total == 0 {
            assert!(mon().calls == 0, "[C07.cancelled_waiter_never_enters] a caller cancelled while waiting never reaches the inner service");
        }
    }
    kani::cover!(finished && mon().calls == 1, "completed call");
    kani::cover!(!finished && mon().dropped_unfinished == 1, "cancelled while running");
    kani::cover!(!finished && st().acquires_cancelled == 1, "cancelled while queued");
    std::mem::forget(b);
}

#[kani::proof]
#[kani::unwind(5)]
#[kani::stub(std::time::Instant::now, tokio::model::std_instant_now)]
#[kani::stub(catch_unwind, crate::verif_kani::env::catch_unwind_stub)]
fn one_call_any_availability() { one_call(Avail::Any, 3) }

#[kani::proof]
#[kani::unwind(5)]
#[kani::stub(std::time::Instant::now, tokio::model::std_instant_now)]
#[kani::stub(catch_unwind, crate::verif_kani::env::catch_unwind_stub)]
fn one_call_two_polls() { one_call(Avail::Any, 2) }


/// C20 — listeners only observe: the same call with two side-effecting
/// listeners registered resolves exactly as without them, and both listeners
/// receive every event.
#[kani::proof]
#[kani::unwind(5)]
#[kani::stub(std::time::Instant::now, tokio::model::std_instant_now)]
#[kani::stub(catch_unwind, crate::verif_kani::env::catch_unwind_stub)]
fn listeners_only_observe() {
    use tower_resilience_core::{EventListeners, FnListener};
    let mut ls: EventListeners<crate::events::BulkheadEvent> = EventListeners::new();
    ls.add(FnListener::new(|_e: &crate::events::BulkheadEvent| { mon().events += 1; }));
    ls.add(FnListener::new(|_e: &crate::events::BulkheadEvent| { mon().events += 0x100; }));
    let cfg = BulkheadConfig { max_concurrent_calls: 2, max_wait_duration: None, name: String::new(), event_listeners: ls };
    let mut script = svc::any_script();
    script.never = false;
    script.immediate = true;
    let mut b = tower_layer::Layer::layer(&crate::layer::BulkheadLayer::new(cfg), Inner::new(script));
    st().sem_avail = Avail::Always;
    st().sem_reported_available = 1;
    let req: u32 = kani::any();
    let _ = svc::poll_ready_once(&mut b);
    let mut fut = b.call(req);
    let p = svc::poll_once(fut.as_mut());
    match p {
        Poll::Ready(Ok(v)) => assert!(script.outcomes[0] == Ok(v), "[C20.listeners_dont_change_outcome] with listeners the response is unchanged"),
        Poll::Ready(Err(BulkheadServiceError::Inner(e))) => assert!(script.outcomes[0] == Err(e.0), "[C20.listeners_dont_change_outcome] with listeners the error is unchanged"),
        _ => assert!(false, "[C20.listeners_dont_change_outcome] with listeners the call resolves as without them"),
    }
    assert!(mon().calls == 1 && mon().last_req == req, "[C20.bulkhead_forwards] forwarded unchanged, exactly once");
    let ev = mon().events;
    assert!(ev & 0xff == 2 && ev >> 8 == 2, "[C20.listeners_get_every_event] both listeners receive both events (permitted, finished/failed)");
    std::mem::forget(fut);
    std::mem::forget(b);
}

/// P4 — configuration reaches the service: `BulkheadLayer::builder()…build().layer(inner)`
/// creates exactly one semaphore with the configured number of permits, clones of the
/// service share it (no new semaphore), and the configured max_wait is what a waiting
/// caller is timed against.
#[kani::proof]
#[kani::unwind(5)]
#[kani::stub(std::time::Instant::now, tokio::model::std_instant_now)]
#[kani::stub(catch_unwind, crate::verif_kani::env::catch_unwind_stub)]
fn layer_builds_one_shared_semaphore() {
    use tower_layer::Layer;
    let n: usize = kani::any();
    kani::assume(n >= 1 && n <= 100_000);
    let wait = any_millis(60_000);
    // the setters are last-writer-wins: an earlier reject_when_full() (also the one inside the
    // small() preset) does not survive a later max_wait_duration(), and vice versa
    let order: u8 = kani::any();
    kani::assume(order < 4);
    let (layer, wait) = match order {
        0 => (crate::layer::BulkheadLayer::builder().max_concurrent_calls(n).max_wait_duration(wait).build(), wait),
        1 => (crate::layer::BulkheadLayer::builder().reject_when_full().max_concurrent_calls(n).max_wait_duration(wait).build(), wait),
        2 => (crate::layer::BulkheadLayer::small().max_wait_duration(wait).max_concurrent_calls(n).build(), wait),
        _ => (crate::layer::BulkheadLayer::builder().max_concurrent_calls(n).max_wait_duration(wait).reject_when_full().build(), Duration::ZERO),
    };
    assert!(st().sem_created == 0, "[C01.no_semaphore_before_layer] building the layer value creates no bulkhead yet");
    let mut script = svc::any_script();
    script.never = false;
    script.immediate = true;
    let mut b = layer.layer(Inner::new(script));
    assert!(st().sem_created == 1 && st().sem_capacity == n, "[C01.one_semaphore_per_layer] one semaphore with max_concurrent_calls permits per wrapped service");
    let mut b2 = b.clone();
    assert!(st().sem_created == 1, "[C01.clones_share_semaphore] clones of the service share the semaphore");
    // a caller on the clone that never gets a permit is timed against the configured max_wait
    st().sem_avail = Avail::Never;
    let _ = svc::poll_ready_once(&mut b2);
    let mut fut = b2.call(kani::any());
    let p = svc::poll_once(fut.as_mut());
    assert!(st().timeouts_created == 1 && st().last_timeout_duration == wait, "[C07.configured_max_wait_used] the configured max_wait_duration bounds the wait");
    if wait > Duration::ZERO {
        assert!(p.is_pending(), "[C07.timeout_exact] a waiting caller is pending before max_wait_duration has elapsed");
    }
    let _ = svc::poll_ready_once(&mut b);
    std::mem::forget(fut);
    std::mem::forget(b);
    std::mem::forget(b2);
    std::mem::forget(layer);
}

/// C20 readiness clause for the bulkhead: see svc::check_readiness_passthrough.
#[kani::proof]
#[kani::unwind(4)]
#[kani::stub(std::time::Instant::now, tokio::model::std_instant_now)]
fn readiness_passthrough() {
    let (mut b, _script) = mk(any_wait(), 1);
    svc::check_readiness_passthrough(&mut b);
    std::mem::forget(b);
}
