//! C11 — coalescing: one inner call per key, every waiter gets a clone of the
//! leader's result, a dropped leader fails its waiters promptly and frees the
//! key.  Three requests over two keys through the real `CoalesceService::call`
//! and `CoalesceFuture::{poll, drop}`; the map is the association-list model
//! of hashbrown, the broadcast channel the tokio model; the mutex is the real
//! parking_lot mutex.
use crate::config::CoalesceConfig;
use crate::service::{CoalesceError, CoalesceService};
use crate::verif_kani::svc::{self, mon, Inner, InnerErr};
use std::panic::catch_unwind;
use std::sync::Arc;
use std::task::Poll;
use tower_service::Service;

fn key_of(r: &u32) -> u8 {
    (*r & 1) as u8
}

type Svc = CoalesceService<Inner, u8, u32, fn(&u32) -> u8>;

fn mk() -> (Svc, svc::Script) {
    let mut script = svc::any_script();
    script.never = false;
    script.immediate = false; // inner calls complete at a poll of the solver's choice
    let cfg: CoalesceConfig<u8, fn(&u32) -> u8> = CoalesceConfig::new(key_of as fn(&u32) -> u8);
    (CoalesceService::new(Inner::new(script), Arc::new(cfg)), script)
}

/// leader + waiter on one key, a third request on the other key; the leader is
/// then either driven to completion or dropped (any of the two, at the solver's
/// choice), while the waiter is polled before and after.
#[kani::proof]
#[kani::unwind(6)]
#[kani::stub(catch_unwind, crate::verif_kani::env::catch_unwind_stub)]
fn leader_waiter_and_other_key() {
    let (mut s, script) = mk();
    let mut s2 = s.clone(); // requests arrive through clones of one service
    let a: u32 = kani::any();
    let b: u32 = kani::any();
    let c: u32 = kani::any();
    kani::assume(key_of(&a) == key_of(&b) && key_of(&c) != key_of(&a));
    let _ = svc::poll_ready_once(&mut s);
    let mut leader = Some(Box::pin(s.call(a)));
    assert!(mon().calls == 1 && mon().last_req == a, "[C11.leader_calls_inner] the first request for a key calls the wrapped service");
    assert!(mon().unready_calls == 0, "[C20.coalesce_ready_instance] the leader's call goes to the instance on which readiness was observed");
    let mut waiter = Box::pin(s2.call(b));
    assert!(mon().calls == 1, "[C11.waiter_causes_no_call] a request arriving while a call for its key is in flight causes no inner call of its own");
    let mut other = Box::pin(s.call(c));
    assert!(mon().calls == 2 && mon().last_req == c && mon().live == 2, "[C11.keys_independent] another key gets its own inner call; at most one per key is in flight");
    // the waiter is polled while the leader is still running
    assert!(svc::poll_once(waiter.as_mut()).is_pending(), "[C11.waiter_waits] a waiter is pending while the leader is running");
    let drop_leader: bool = kani::any();
    let mut leader_result = None;
    if drop_leader {
        leader = None; // cancellation of the leading request
        assert!(mon().dropped_unfinished == 1, "[C11.leader_drop_drops_inner] dropping the leader drops its inner call");
    } else {
        let mut k = 0;
        while k < 2 && leader_result.is_none() {
            if let Poll::Ready(r) = svc::poll_once(leader.as_mut().unwrap().as_mut()) {
                leader_result = Some(r);
            }
            k += 1;
        }
    }
    let w = svc::poll_once(waiter.as_mut());
    if drop_leader {
        assert!(matches!(w, Poll::Ready(Err(CoalesceError::LeaderCancelled))), "[C11.leader_cancelled_prompt] waiters of a dropped leader fail with the leader-cancelled error at their next poll");
    } else if let Some(lr) = &leader_result {
        match (lr, &w) {
            (Ok(v), Poll::Ready(Ok(x))) => assert!(v == x && script.outcomes[0] == Ok(*v), "[C11.shared_ok] every waiter receives a clone of the leader's response"),
            (Err(CoalesceError::Service(InnerErr(e))), Poll::Ready(Err(CoalesceError::Service(InnerErr(x))))) => assert!(e == x && script.outcomes[0] == Err(*e), "[C11.shared_err] every waiter receives a clone of the leader's error"),
            _ => assert!(false, "[C11.shared_result] the waiter resolves with the leader's result as soon as the leader has it"),
        }
    } else {
        assert!(w.is_pending(), "[C11.waiter_waits] a waiter is pending while the leader is running");
    }
    assert!(mon().calls == 2, "[C11.one_call_per_key] still one inner call per key");
    // once the call is over (completed or cancelled) the key is usable again at once
    if drop_leader || leader_result.is_some() {
        let d: u32 = kani::any();
        kani::assume(key_of(&d) == key_of(&a));
        let fresh = Box::pin(s2.call(d));
        assert!(mon().calls == 3 && mon().last_req == d, "[C11.key_reusable] after completion or cancellation the next request for the key starts a fresh call");
        std::mem::forget(fresh);
    }
    // a finished leader that is dropped LATE must not disturb the next flight of its key
    if leader_result.is_some() {
        let mut w2 = Box::pin(s.call(a)); // joins the fresh flight started above
        assert!(mon().calls == 3, "[C11.waiter_causes_no_call] a request arriving while a call for its key is in flight causes no inner call of its own");
        leader = None; // the old, completed leader future is dropped only now
        assert!(svc::poll_once(w2.as_mut()).is_pending(), "[C11.stale_leader_drop_harmless] dropping a leader that already completed does not cancel the key's next flight");
        let w3 = Box::pin(s2.call(a));
        assert!(mon().calls == 3, "[C11.one_call_per_key] the next flight is still registered: further requests join it");
        std::mem::forget(w2);
        std::mem::forget(w3);
    }
    // the other key was never affected
    assert!(svc::poll_once(other.as_mut()).is_pending() || mon().completed >= 1, "[C11.keys_independent] the other key's call proceeds independently");
    kani::cover!(drop_leader, "leader dropped");
    kani::cover!(matches!(leader_result, Some(Ok(_))), "leader completed ok");
    kani::cover!(matches!(leader_result, Some(Err(_))), "leader completed with error");
    std::mem::forget(leader);
    std::mem::forget(waiter);
    std::mem::forget(other);
    std::mem::forget(s);
    std::mem::forget(s2);
}

/// A waiter that is dropped does not disturb the leader or later waiters.
#[kani::proof]
#[kani::unwind(6)]
#[kani::stub(catch_unwind, crate::verif_kani::env::catch_unwind_stub)]
fn dropped_waiter_is_harmless() {
    let (mut s, script) = mk();
    let a: u32 = kani::any();
    let _ = svc::poll_ready_once(&mut s);
    let mut leader = Box::pin(s.call(a));
    let w1 = Box::pin(s.call(a));
    let mut w2 = Box::pin(s.call(a));
    assert!(mon().calls == 1, "[C11.waiter_causes_no_call] waiters cause no inner call");
    drop(w1);
    let mut r = None;
    let mut k = 0;
    while k < 2 && r.is_none() {
        if let Poll::Ready(x) = svc::poll_once(leader.as_mut()) {
            r = Some(x);
        }
        k += 1;
    }
    if let Some(lr) = r {
        let w = svc::poll_once(w2.as_mut());
        match (lr, w) {
            (Ok(v), Poll::Ready(Ok(x))) => assert!(v == x && script.outcomes[0] == Ok(v), "[C11.shared_ok] every waiter receives a clone of the leader's response"),
            (Err(CoalesceError::Service(InnerErr(e))), Poll::Ready(Err(CoalesceError::Service(InnerErr(x))))) => assert!(e == x, "[C11.shared_err] every waiter receives a clone of the leader's error"),
            _ => assert!(false, "[C11.shared_result] the remaining waiter resolves with the leader's result"),
        }
    }
    assert!(mon().calls == 1, "[C11.one_call_per_key] one inner call per key");
    std::mem::forget(leader);
    std::mem::forget(w2);
    std::mem::forget(s);
}

/// A leader that is cancelled while NOBODY waits on it frees its key as well:
/// the next request for the key is a leader again (its own inner call), not a
/// waiter on a flight that no longer exists.
#[kani::proof]
#[kani::unwind(6)]
#[kani::stub(catch_unwind, crate::verif_kani::env::catch_unwind_stub)]
fn lone_leader_dropped_key_reusable() {
    let (mut s, script) = mk();
    let a: u32 = kani::any();
    let b: u32 = kani::any();
    kani::assume(key_of(&a) == key_of(&b));
    let _ = svc::poll_ready_once(&mut s);
    let mut leader = Box::pin(s.call(a));
    assert!(mon().calls == 1, "[C11.leader_calls_inner] the first request for a key calls the wrapped service");
    let polled: bool = kani::any();
    let mut finished = false;
    if polled {
        finished = svc::poll_once(leader.as_mut()).is_ready();
    }
    drop(leader); // cancelled (or, when it had finished, simply released) with no waiter
    let _ = svc::poll_ready_once(&mut s);
    let mut next = Box::pin(s.call(b));
    assert!(mon().calls == 2 && mon().last_req == b, "[C11.key_reusable] after completion or cancellation the next request for the key starts a fresh call");
    let mut r = None;
    let mut k = 0;
    while k < 2 && r.is_none() {
        if let Poll::Ready(x) = svc::poll_once(next.as_mut()) {
            r = Some(x);
        }
        k += 1;
    }
    if let Some(x) = &r {
        assert!(!matches!(x, Err(CoalesceError::LeaderCancelled)), "[C11.fresh_leader_not_cancelled] the fresh leader resolves with its own call's result");
    }
    assert!(mon().live <= 1, "[C11.one_call_per_key] at most one inner call per key is in flight");
    kani::cover!(!finished, "leader cancelled before completion");
    kani::cover!(r.is_some(), "fresh leader resolved");
    std::mem::forget(next);
    std::mem::forget(s);
}

/// C20 readiness clause for coalesce: see svc::check_readiness_passthrough.
#[kani::proof]
#[kani::unwind(4)]
fn readiness_passthrough() {
    let (mut s, _script) = mk();
    svc::check_readiness_passthrough(&mut s);
    std::mem::forget(s);
}
