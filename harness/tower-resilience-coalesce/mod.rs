//! In-crate Kani harnesses for tower-resilience-coalesce.
pub mod env;
pub mod svc;
pub mod c11;
