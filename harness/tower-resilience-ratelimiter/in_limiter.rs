//! C02 / C15 — kernel harnesses over the real window states and the real
//! `SharedRateLimiter::acquire` future (child module of `limiter`).
//!
//! All callers (any number, immediate or waking) act on the shared state only
//! through `try_acquire()` under the std mutex, so ONE inductive step from an
//! ARBITRARY state satisfying the representation invariant covers every
//! history and every interleaving.  A *grant* is a `try_acquire` returning
//! `Ok(ZERO)`.
use super::*;
use crate::verif_kani::env::{self, any_millis};
use crate::verif_kani::svc;
use std::task::Poll;

impl SharedRateLimiter {
    /// another caller's try_acquire on the shared state (harness interference)
    pub(crate) fn model_try_acquire(&self) -> bool {
        self.state.lock().unwrap().try_acquire() == Ok(Duration::ZERO)
    }
}

fn init_clock() {
    env::set_now(any_millis(500_000));
    tokio::model::set_now(env::now());
}
fn now_i() -> Instant {
    env::instant_at(env::now())
}

// ------------------------------------------------------------------ fixed window
fn any_fixed() -> FixedWindowState {
    let limit: usize = kani::any();
    kani::assume(limit >= 1 && limit <= 1_000_000);
    let avail: usize = kani::any();
    kani::assume(avail <= limit);
    let start = any_millis(500_000);
    kani::assume(start <= env::now());
    FixedWindowState {
        limit_for_period: limit,
        refresh_period: any_millis(100_000),
        timeout_duration: any_millis(300_000),
        available_permits: avail,
        period_start: env::instant_at(start),
    }
}

/// Window formulation for the fixed window: windows are delimited by refresh
/// instants; a refresh happens only `>= refresh_period` after the previous one
/// and starts a window with `limit` permits; every grant consumes one permit
/// of the current window; nothing else creates permits.
#[kani::proof]
#[kani::stub(std::time::Instant::now, env::now_stub)]
fn fixed_window_step() {
    init_clock();
    let mut s = any_fixed();
    let (limit, period, timeout) = (s.limit_for_period, s.refresh_period, s.timeout_duration);
    let (avail0, start0) = (s.available_permits, s.period_start);
    let elapsed = now_i().duration_since(start0);
    let r = s.try_acquire();
    let refreshed = s.period_start != start0;
    if refreshed {
        assert!(elapsed >= period, "[C02.fixed_window_not_shorter] a window is refreshed only after refresh_period has elapsed");
        assert!(s.period_start == now_i(), "[C02.fixed_window_starts_now] the new window starts at the refresh instant");
    } else {
        assert!(elapsed < period, "[C15.fixed_refresh_when_due] the window is refreshed as soon as refresh_period has elapsed");
    }
    let budget = if refreshed { limit } else { avail0 };
    match r {
        Ok(w) if w == Duration::ZERO => {
            assert!(budget >= 1 && s.available_permits == budget - 1, "[C02.fixed_grant_consumes_permit] a grant consumes exactly one permit of the current window");
        }
        Ok(w) => {
            assert!(budget == 0 && s.available_permits == 0, "[C15.fixed_admit_at_once_if_capacity] with spare capacity the caller is granted at once");
            assert!(w <= timeout, "[C15.fixed_wait_within_timeout] a caller is told to wait only if the wait fits the timeout");
            assert!(w == period.saturating_sub(elapsed), "[C15.fixed_wait_until_refresh] the wait is the time until the next window");
        }
        Err(_) => {
            assert!(budget == 0 && s.available_permits == 0, "[C15.fixed_reject_only_when_empty] rejection only without capacity");
            assert!(period.saturating_sub(elapsed) > timeout, "[C15.fixed_reject_only_beyond_timeout] rejection only when the needed wait exceeds the timeout");
        }
    }
    assert!(s.available_permits <= limit, "[C02.fixed_invariant] at most limit permits per window");
    kani::cover!(refreshed && elapsed == period, "refresh exactly on the boundary");
    kani::cover!(matches!(r, Ok(w) if w > Duration::ZERO), "wait path");
    kani::cover!(r.is_err(), "reject path");
}

/// After two idle periods the next `limit` calls are granted at once (here:
/// the first one is, and leaves limit-1 permits; induction by the step above).
#[kani::proof]
#[kani::stub(std::time::Instant::now, env::now_stub)]
fn fixed_idle_recovers() {
    init_clock();
    let mut s = any_fixed();
    let idle = now_i().duration_since(s.period_start);
    kani::assume(idle >= s.refresh_period + s.refresh_period);
    let r = s.try_acquire();
    assert!(r == Ok(Duration::ZERO) && s.available_permits == s.limit_for_period - 1,
        "[C15.idle_recovers_full_capacity] after two idle periods a full window of permits is available");
}

// ------------------------------------------------------------------ sliding log
/// `n` = concrete number of entries in the pre-log (symbolic VecDeque lengths
/// exhaust the solver); entries sorted, <= now.
fn any_log(n: usize) -> SlidingLogState {
    let limit: usize = kani::any();
    kani::assume(limit >= 1 && limit <= 3 && n <= limit);
    let mut s = SlidingLogState::new(limit, any_millis(100_000), any_millis(300_000));
    let mut t = Duration::ZERO;
    let mut i = 0;
    while i < n {
        t = t + any_millis(500_000);
        kani::assume(t <= env::now());
        s.request_log.push_back(env::instant_at(t));
        i += 1;
    }
    s
}
fn sliding_log_step(n: usize) {
    init_clock();
    let mut s = any_log(n);
    let (limit, window, timeout) = (s.limit_for_period, s.window_duration, s.timeout_duration);
    let mut pre = [now_i(); 3];
    let mut i = 0;
    while i < n {
        pre[i] = s.request_log[i];
        i += 1;
    }
    let r = s.try_acquire();
    let post_len = s.request_log.len();
    let granted = r == Ok(Duration::ZERO);
    let kept = if granted { post_len - 1 } else { post_len };
    assert!(kept <= n, "[C02.log_only_removes] old grants are only ever removed");
    let dropped = n - kept;
    // exactly the expired prefix was dropped
    let mut i = 0;
    while i < n {
        let age = now_i().duration_since(pre[i]);
        if i < dropped {
            assert!(age >= window, "[C02.log_drops_only_expired] a grant is forgotten only once it is older than the window");
        } else {
            assert!(s.request_log[i - dropped] == pre[i], "[C02.log_keeps_order] remaining grants are kept in order");
            if i == dropped {
                assert!(age < window, "[C02.log_drops_all_expired] expired grants at the front are all dropped");
            }
        }
        i += 1;
    }
    if granted {
        assert!(kept < limit, "[C02.log_grant_needs_room] a grant needs fewer than limit unexpired grants: limit+1 consecutive grants span at least the window");
        assert!(s.request_log[post_len - 1] == now_i(), "[C02.log_records_grant] a grant is recorded at the current instant");
    } else {
        assert!(kept == limit, "[C15.log_admit_at_once_if_capacity] with fewer than limit grants in the window the caller is granted at once");
        let until = (pre[dropped] + window).saturating_duration_since(now_i());
        match r {
            Ok(w) => assert!(w == until && w <= timeout, "[C15.log_wait_until_oldest_expires] the wait is the time until the oldest grant leaves the window"),
            Err(_) => assert!(until > timeout, "[C15.log_reject_only_beyond_timeout] rejection only when the needed wait exceeds the timeout"),
        }
    }
    assert!(post_len <= limit, "[C02.log_invariant] at most limit grants inside any window");
    kani::cover!(granted && dropped > 0, "grant after expiry");
    kani::cover!(r.is_err(), "reject path");
    std::mem::forget(s);
}
#[kani::proof]
#[kani::unwind(5)]
#[kani::stub(std::time::Instant::now, env::now_stub)]
fn sliding_log_step_n0() { sliding_log_step(0) }
#[kani::proof]
#[kani::unwind(5)]
#[kani::stub(std::time::Instant::now, env::now_stub)]
fn sliding_log_step_n1() { sliding_log_step(1) }
#[kani::proof]
#[kani::unwind(5)]
#[kani::stub(std::time::Instant::now, env::now_stub)]
fn sliding_log_step_n2() { sliding_log_step(2) }
#[kani::proof]
#[kani::unwind(5)]
#[kani::stub(std::time::Instant::now, env::now_stub)]
fn sliding_log_step_n3() { sliding_log_step(3) }

// ------------------------------------------------------------------ sliding counter
fn any_counter() -> SlidingCounterState {
    let limit: usize = kani::any();
    kani::assume(limit >= 1 && limit <= 1000);
    let prev: usize = kani::any();
    let cur: usize = kani::any();
    kani::assume(prev <= limit && cur <= limit);
    let start = any_millis(500_000);
    kani::assume(start <= env::now());
    let bucket = any_millis(100_000);
    kani::assume(bucket > Duration::ZERO);
    SlidingCounterState {
        limit_for_period: limit,
        bucket_duration: bucket,
        timeout_duration: any_millis(300_000),
        previous_count: prev,
        current_count: cur,
        bucket_start: env::instant_at(start),
    }
}
/// Windows = buckets: a bucket is rotated only `>= bucket_duration` after it
/// started; every grant is counted in the current bucket; a bucket never holds
/// more than `limit` grants.
#[kani::proof]
#[kani::stub(std::time::Instant::now, env::now_stub)]
fn sliding_counter_step() {
    init_clock();
    let mut s = any_counter();
    let (limit, bucket) = (s.limit_for_period, s.bucket_duration);
    let (prev0, cur0, start0) = (s.previous_count, s.current_count, s.bucket_start);
    let elapsed = now_i().duration_since(start0);
    let r = s.try_acquire();
    let rotated = s.bucket_start != start0;
    if rotated {
        assert!(elapsed >= bucket, "[C02.counter_window_not_shorter] a bucket is rotated only after bucket_duration has elapsed");
        assert!(s.bucket_start == now_i(), "[C02.counter_window_starts_now] the new bucket starts at the rotation instant");
        assert!(s.previous_count == cur0 || s.previous_count == 0, "[C02.counter_rotation_carries] rotation carries the old bucket's count (or nothing after a long gap)");
    } else {
        assert!(elapsed < bucket, "[C15.counter_rotate_when_due] the bucket is rotated as soon as bucket_duration has elapsed");
        assert!(s.previous_count == prev0, "[C02.counter_previous_stable] the previous bucket's count is untouched without rotation");
    }
    let base = if rotated { 0 } else { cur0 };
    if r == Ok(Duration::ZERO) {
        assert!(s.current_count == base + 1, "[C02.counter_grant_counts] a grant is counted in the current bucket");
        assert!(s.current_count <= limit, "[C02.counter_invariant] a bucket never holds more than limit grants");
    } else {
        assert!(s.current_count == base, "[C02.counter_no_grant_no_count] without a grant nothing is counted");
        if let Ok(w) = r {
            assert!(w <= s.timeout_duration, "[C15.counter_wait_within_timeout] a caller is told to wait only if the wait fits the timeout");
        }
    }
    if s.previous_count == 0 && base < limit {
        assert!(r == Ok(Duration::ZERO), "[C15.counter_admit_at_once_if_capacity] with an empty previous bucket and room in the current one the caller is granted at once");
    }
    kani::cover!(rotated, "rotation reachable");
    kani::cover!(r.is_err(), "reject reachable");
}
#[kani::proof]
#[kani::stub(std::time::Instant::now, env::now_stub)]
fn counter_idle_recovers() {
    init_clock();
    let mut s = any_counter();
    let idle = now_i().duration_since(s.bucket_start);
    kani::assume(idle >= s.bucket_duration + s.bucket_duration + Duration::from_millis(1));
    let r = s.try_acquire();
    assert!(r == Ok(Duration::ZERO) && s.current_count == 1 && s.previous_count == 0,
        "[C15.idle_recovers_full_capacity] after two idle periods the limiter is empty again");
}

// ------------------------------------------------------------------ acquire(): one waiter against interference
/// "admitted => holds a grant": one real `acquire()` future on a fixed-window
/// limiter; between its polls the clock moves arbitrarily and other callers
/// perform arbitrary `try_acquire`s on the shared state (each a real call).
/// acquire() returns Ok  <=>  ITS OWN try_acquire took a permit in that poll.
#[kani::proof]
#[kani::unwind(4)]
#[kani::stub(std::time::Instant::now, env::now_stub)]
fn acquire_admitted_iff_granted_fixed() {
    init_clock();
    let limit: usize = kani::any();
    kani::assume(limit >= 1 && limit <= 3);
    let period = any_millis(100_000);
    let timeout = any_millis(300_000);
    let l = SharedRateLimiter::new(WindowType::Fixed, limit, period, timeout);
    // arbitrary reachable state left by earlier callers
    {
        let mut g = l.state.lock().unwrap();
        if let RateLimiterStateInner::Fixed(f) = &mut *g {
            let a: usize = kani::any();
            kani::assume(a <= limit);
            f.available_permits = a;
        }
    }
    let snapshot = |l: &SharedRateLimiter| -> (usize, Instant) {
        let g = l.state.lock().unwrap();
        match &*g {
            RateLimiterStateInner::Fixed(f) => (f.available_permits, f.period_start),
            _ => (0, now_i()),
        }
    };
    let mut fut = Box::pin(l.acquire());
    let mut took: u32 = 0;
    let mut out = None;
    let mut step = 0;
    while step < 3 {
        let (a0, s0) = snapshot(&l);
        let p = svc::poll_once(fut.as_mut());
        let (a1, s1) = snapshot(&l);
        let consumed = (s1 == s0 && a1 + 1 == a0) || (s1 != s0 && a1 + 1 == limit);
        if consumed {
            took += 1;
        } else {
            assert!(a1 == a0 || s1 != s0, "[C02.acquire_only_takes] acquire never changes the permit count except by taking one");
        }
        if let Poll::Ready(r) = p {
            out = Some(r);
            break;
        }
        assert!(!consumed, "[C02.pending_holds_nothing] a waiting caller holds no permit");
        // environment: time passes, other callers take permits
        let d = any_millis(200_000);
        env::advance(d);
        tokio::model::advance(d);
        let others: u8 = kani::any();
        let mut k = 0;
        while k < 2 {
            if others & (1 << k) != 0 {
                let _ = l.state.lock().unwrap().try_acquire();
            }
            k += 1;
        }
        step += 1;
    }
    if let Some(r) = out {
        match r {
            Ok(_) => assert!(took == 1, "[C02.admitted_holds_a_grant] a caller is admitted only if its own try_acquire consumed a permit"),
            Err(()) => assert!(took == 0, "[C15.rejected_took_nothing] a rejected caller consumed no permit"),
        }
        assert!(tokio::model::st().sleeps_created <= 1, "[C15.one_sleep] at most one sleep per call");
        if tokio::model::st().sleeps_created == 1 {
            assert!(tokio::model::st().last_sleep_duration <= timeout, "[C15.decided_within_timeout] a caller never waits longer than timeout_duration");
        }
    }
    kani::cover!(matches!(out, Some(Ok(_))) && tokio::model::st().sleeps_created == 1, "admitted after waiting");
    kani::cover!(matches!(out, Some(Err(()))) && tokio::model::st().sleeps_created == 1, "rejected after waiting (permit taken by others)");
    drop(fut);
    std::mem::forget(l);
}
