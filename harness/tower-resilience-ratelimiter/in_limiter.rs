//! C02 / C15 — kernel harnesses over the real window states and the real
//! `SharedRateLimiter::acquire` future (child module of `limiter`).
//!
//! All callers (any number, immediate or waking) act on the shared state only
//! through `try_acquire()` under the std mutex, so ONE inductive step from an
//! ARBITRARY state satisfying the representation invariant covers every
//! history and every interleaving.  A *grant* is a `try_acquire` returning
//! `Ok(ZERO)`.
use super::*;
use crate::verif_kani::env::{self, any_millis};
use crate::verif_kani::svc;
use std::task::Poll;
use std::panic::catch_unwind;

impl SharedRateLimiter {
    /// another caller's try_acquire on the shared state (harness interference)
    pub(crate) fn model_try_acquire(&self) -> bool {
        self.state.lock().unwrap().try_acquire() == Ok(Duration::ZERO)
    }
}

fn init_clock() {
    env::set_now(any_millis(500_000));
    tokio::model::set_now(env::now());
}
fn now_i() -> Instant {
    env::instant_at(env::now())
}

// ------------------------------------------------------------------ fixed window
fn any_fixed() -> FixedWindowState {
    let limit: usize = kani::any();
    kani::assume(limit >= 1 && limit <= 1_000_000);
    let avail: usize = kani::any();
    kani::assume(avail <= limit);
    let start = any_millis(500_000);
    kani::assume(start <= env::now());
    FixedWindowState {
        limit_for_period: limit,
        refresh_period: { let p = any_millis(100_000); kani::assume(p > Duration::ZERO); p },
        timeout_duration: any_millis(300_000),
        available_permits: avail,
        period_start: env::instant_at(start),
    }
}

/// Window formulation for the fixed window: windows are delimited by refresh
/// instants; a refresh happens only `>= refresh_period` after the previous one
/// and starts a window with `limit` permits; every grant consumes one permit
/// of the current window; nothing else creates permits.
#[kani::proof]
#[kani::unwind(4)]
#[kani::stub(std::time::Instant::now, env::now_stub)]
fn fixed_window_step() {
    init_clock();
    let mut s = any_fixed();
    let (limit, period, timeout) = (s.limit_for_period, s.refresh_period, s.timeout_duration);
    let (avail0, start0) = (s.available_permits, s.period_start);
    let elapsed = now_i().duration_since(start0);
    let r = s.try_acquire();
    let refreshed = s.period_start != start0;
    if refreshed {
        assert!(elapsed >= period, "[C02.fixed_window_not_shorter] a window is refreshed only after refresh_period has elapsed");
        assert!(s.period_start == now_i(), "[C02.fixed_window_starts_now] the new window starts at the refresh instant");
    } else {
        assert!(elapsed < period, "[C15.fixed_refresh_when_due] the window is refreshed as soon as refresh_period has elapsed");
    }
    let budget = if refreshed { limit } else { avail0 };
    match r {
        Ok(w) if w == Duration::ZERO => {
            assert!(budget >= 1 && s.available_permits == budget - 1, "[C02.fixed_grant_consumes_permit] a grant consumes exactly one permit of the current window");
        }
        Ok(w) => {
            assert!(budget == 0 && s.available_permits == 0, "[C15.fixed_admit_at_once_if_capacity] with spare capacity the caller is granted at once");
            assert!(w <= timeout, "[C15.fixed_wait_within_timeout] a caller is told to wait only if the wait fits the timeout");
            assert!(w == period.saturating_sub(elapsed), "[C15.fixed_wait_until_refresh] the wait is the time until the next window");
        }
        Err(_) => {
            assert!(budget == 0 && s.available_permits == 0, "[C15.fixed_reject_only_when_empty] rejection only without capacity");
            assert!(period.saturating_sub(elapsed) > timeout, "[C15.fixed_reject_only_beyond_timeout] rejection only when the needed wait exceeds the timeout");
        }
    }
    assert!(s.available_permits <= limit, "[C02.fixed_invariant] at most limit permits per window");
    kani::cover!(refreshed && elapsed == period, "refresh exactly on the boundary");
    kani::cover!(matches!(r, Ok(w) if w > Duration::ZERO), "wait path");
    kani::cover!(r.is_err(), "reject path");
}

/// After two idle periods the next `limit` calls are granted at once (here:
/// the first one is, and leaves limit-1 permits; induction by the step above).
#[kani::proof]
#[kani::unwind(4)]
#[kani::stub(std::time::Instant::now, env::now_stub)]
fn fixed_idle_recovers() {
    init_clock();
    let mut s = any_fixed();
    let idle = now_i().duration_since(s.period_start);
    kani::assume(idle >= s.refresh_period + s.refresh_period);
    let r = s.try_acquire();
    assert!(r == Ok(Duration::ZERO) && s.available_permits == s.limit_for_period - 1,
        "[C15.idle_recovers_full_capacity] after two idle periods a full window of permits is available");
}

// ------------------------------------------------------------------ sliding log
/// `limit` and `n` (number of entries in the pre-log) are CONCRETE harness
/// parameters: symbolic VecDeque capacities/lengths exhaust the solver's
/// memory.  Entries are sorted and <= now, their values symbolic.
fn any_log(limit: usize, n: usize) -> SlidingLogState {
    let mut s = SlidingLogState::new(limit, any_millis(100_000), any_millis(300_000));
    let mut t = Duration::ZERO;
    let mut i = 0;
    while i < n {
        t = t + any_millis(500_000);
        kani::assume(t <= env::now());
        s.request_log.push_back(env::instant_at(t));
        i += 1;
    }
    s
}
fn sliding_log_step(limit_c: usize, n: usize) {
    init_clock();
    let mut s = any_log(limit_c, n);
    let (limit, window, timeout) = (s.limit_for_period, s.window_duration, s.timeout_duration);
    let mut pre = [now_i(); 3];
    let mut i = 0;
    while i < n {
        pre[i] = s.request_log[i];
        i += 1;
    }
    let r = s.try_acquire();
    let post_len = s.request_log.len();
    let granted = r == Ok(Duration::ZERO);
    let kept = if granted { post_len - 1 } else { post_len };
    assert!(kept <= n, "[C02.log_only_removes] old grants are only ever removed");
    let dropped = n - kept;
    // exactly the expired prefix was dropped
    let mut i = 0;
    while i < n {
        let age = now_i().duration_since(pre[i]);
        if i < dropped {
            assert!(age >= window, "[C02.log_drops_only_expired] a grant is forgotten only once it is older than the window");
        } else {
            assert!(s.request_log[i - dropped] == pre[i], "[C02.log_keeps_order] remaining grants are kept in order");
            if i == dropped {
                assert!(age < window, "[C02.log_drops_all_expired] expired grants at the front are all dropped");
            }
        }
        i += 1;
    }
    if granted {
        assert!(kept < limit, "[C02.log_grant_needs_room] a grant needs fewer than limit unexpired grants: limit+1 consecutive grants span at least the window");
        assert!(s.request_log[post_len - 1] == now_i(), "[C02.log_records_grant] a grant is recorded at the current instant");
    } else {
        assert!(kept == limit, "[C15.log_admit_at_once_if_capacity] with fewer than limit grants in the window the caller is granted at once");
        let until = (pre[dropped] + window).saturating_duration_since(now_i());
        match r {
            Ok(w) => assert!(w == until && w <= timeout, "[C15.log_wait_until_oldest_expires] the wait is the time until the oldest grant leaves the window"),
            Err(_) => assert!(until > timeout, "[C15.log_reject_only_beyond_timeout] rejection only when the needed wait exceeds the timeout"),
        }
    }
    assert!(post_len <= limit, "[C02.log_invariant] at most limit grants inside any window");
    kani::cover!(granted, "grant reachable");
    std::mem::forget(s);
}
#[kani::proof]
#[kani::unwind(6)]
#[kani::stub(std::time::Instant::now, env::now_stub)]
fn sliding_log_step_l1_n0() { sliding_log_step(1, 0) }
#[kani::proof]
#[kani::unwind(6)]
#[kani::stub(std::time::Instant::now, env::now_stub)]
fn sliding_log_step_l1_n1() { sliding_log_step(1, 1) }
#[kani::proof]
#[kani::unwind(6)]
#[kani::stub(std::time::Instant::now, env::now_stub)]
fn sliding_log_step_l2_n1() { sliding_log_step(2, 1) }
#[kani::proof]
#[kani::unwind(6)]
#[kani::stub(std::time::Instant::now, env::now_stub)]
fn sliding_log_step_l2_n2() { sliding_log_step(2, 2) }
#[kani::proof]
#[kani::unwind(6)]
#[kani::stub(std::time::Instant::now, env::now_stub)]
fn sliding_log_step_l3_n2() { sliding_log_step(3, 2) }
#[kani::proof]
#[kani::unwind(6)]
#[kani::stub(std::time::Instant::now, env::now_stub)]
fn sliding_log_step_l3_n3() { sliding_log_step(3, 3) }

/// Windows so long that `oldest + window` is not representable as an Instant
/// ("never refresh": up to Duration::MAX): a full log still admits nobody.
#[kani::proof]
#[kani::unwind(6)]
#[kani::stub(std::time::Instant::now, env::now_stub)]
fn sliding_log_huge_window() {
    init_clock();
    let secs: u64 = kani::any();
    let nanos: u32 = kani::any();
    kani::assume(secs >= 1_000_000_000 && nanos < 1_000_000_000);
    let window = Duration::new(secs, nanos);
    let timeout = any_millis(300_000);
    let mut s = SlidingLogState::new(1, window, timeout);
    let t = any_millis(500_000);
    kani::assume(t <= env::now());
    s.request_log.push_back(env::instant_at(t));
    let r = s.try_acquire();
    assert!(r != Ok(Duration::ZERO) && s.request_log.len() == 1, "[C02.log_grant_needs_room] a grant needs fewer than limit unexpired grants, however long the window");
    assert!(r == Err(timeout), "[C15.log_reject_only_beyond_timeout] the oldest grant expires far beyond the timeout: the caller is rejected");
    kani::cover!(secs == u64::MAX, "Duration::MAX-sized window covered");
    std::mem::forget(s);
}

/// limit_for_period = 0 ("admit nothing"): the empty log has no oldest grant whose expiry
/// could be waited for; the caller must still not be granted.
#[kani::proof]
#[kani::unwind(6)]
#[kani::stub(std::time::Instant::now, env::now_stub)]
fn sliding_log_limit_zero() {
    init_clock();
    let timeout = any_millis(300_000);
    let mut s = SlidingLogState::new(0, any_millis(100_000), timeout);
    let r = s.try_acquire();
    assert!(r != Ok(Duration::ZERO) && s.request_log.len() == 0, "[C02.log_grant_needs_room] a grant needs fewer than limit unexpired grants: with limit 0 nobody is granted");
    assert!(r == Err(timeout), "[C15.log_reject_only_beyond_timeout] no grant will ever expire: the caller is rejected");
    std::mem::forget(s);
}

// ------------------------------------------------------------------ sliding counter
/// Whole-second instants and durations for the sliding counter: its f64 ratio
/// arithmetic over nanosecond-precise symbolic durations did not finish in 15
/// minutes; with whole seconds the `nanos / 1e9` terms fold to constants.
fn whole_secs(max: u64) -> Duration {
    let s: u64 = kani::any();
    kani::assume(s <= max);
    Duration::new(s, 0)
}
fn init_clock_secs() {
    env::set_now(whole_secs(500));
    tokio::model::set_now(env::now());
}
fn any_counter(max_limit: usize) -> SlidingCounterState {
    let limit: usize = kani::any();
    kani::assume(limit >= 1 && limit <= max_limit);
    let prev: usize = kani::any();
    let cur: usize = kani::any();
    kani::assume(prev <= limit && cur <= limit);
    let start = whole_secs(500);
    kani::assume(start <= env::now());
    let bucket = whole_secs(100);
    kani::assume(bucket > Duration::ZERO);
    SlidingCounterState {
        limit_for_period: limit,
        bucket_duration: bucket,
        timeout_duration: whole_secs(300),
        previous_count: prev,
        current_count: cur,
        bucket_start: env::instant_at(start),
    }
}
/// Windows = buckets: a bucket is rotated only `>= bucket_duration` after it
/// started; every grant is counted in the current bucket; a bucket never holds
/// more than `limit` grants.
fn sliding_counter_step(max_limit: usize) {
    init_clock_secs();
    let mut s = any_counter(max_limit);
    let (limit, bucket) = (s.limit_for_period, s.bucket_duration);
    let (prev0, cur0, start0) = (s.previous_count, s.current_count, s.bucket_start);
    let elapsed = now_i().duration_since(start0);
    let r = s.try_acquire();
    let rotated = s.bucket_start != start0;
    if rotated {
        assert!(elapsed >= bucket, "[C02.counter_window_not_shorter] a bucket is rotated only after bucket_duration has elapsed");
        assert!(s.bucket_start == now_i(), "[C02.counter_window_starts_now] the new bucket starts at the rotation instant");
        assert!(s.previous_count == cur0 || s.previous_count == 0, "[C02.counter_rotation_carries] rotation carries the old bucket's count (or nothing after a long gap)");
    } else {
        assert!(elapsed < bucket, "[C15.counter_rotate_when_due] the bucket is rotated as soon as bucket_duration has elapsed");
        assert!(s.previous_count == prev0, "[C02.counter_previous_stable] the previous bucket's count is untouched without rotation");
    }
    let base = if rotated { 0 } else { cur0 };
    if r == Ok(Duration::ZERO) {
        assert!(s.current_count == base + 1, "[C02.counter_grant_counts] a grant is counted in the current bucket");
        assert!(s.current_count <= limit, "[C02.counter_invariant] a bucket never holds more than limit grants");
    } else {
        assert!(s.current_count == base, "[C02.counter_no_grant_no_count] without a grant nothing is counted");
        if let Ok(w) = r {
            assert!(w <= s.timeout_duration, "[C15.counter_wait_within_timeout] a caller is told to wait only if the wait fits the timeout");
        }
    }
    if s.previous_count == 0 && base < limit {
        assert!(r == Ok(Duration::ZERO), "[C15.counter_admit_at_once_if_capacity] with an empty previous bucket and room in the current one the caller is granted at once");
    }
    kani::cover!(rotated, "rotation reachable");
    kani::cover!(r.is_err(), "reject reachable");
}
#[kani::proof]
#[kani::unwind(4)]
#[kani::stub(std::time::Instant::now, env::now_stub)]
fn sliding_counter_step_limit4() { sliding_counter_step(4) }
#[kani::proof]
#[kani::unwind(4)]
#[kani::stub(std::time::Instant::now, env::now_stub)]
fn sliding_counter_step_limit16() { sliding_counter_step(16) }

#[kani::proof]
#[kani::unwind(4)]
#[kani::stub(std::time::Instant::now, env::now_stub)]
fn counter_idle_recovers() {
    init_clock_secs();
    let mut s = any_counter(1000);
    let idle = now_i().duration_since(s.bucket_start);
    kani::assume(idle >= s.bucket_duration + s.bucket_duration + Duration::from_secs(1));
    let r = s.try_acquire();
    assert!(r == Ok(Duration::ZERO) && s.current_count == 1 && s.previous_count == 0,
        "[C15.idle_recovers_full_capacity] after two idle periods the limiter is empty again");
}

// ------------------------------------------------------------------ acquire(): protocol against a scripted window state
// The real `acquire()` future driven through the shared `Arc<Mutex<RateLimiterStateInner>>`
// makes CBMC explore all three window implementations at every try_acquire (the
// enum discriminant is not constant once it lives on the heap) and exhausts 45 GB
// even for one fully concrete poll.  So `RateLimiterStateInner::try_acquire` is
// stubbed by a script: it returns arbitrary results (any of Ok(ZERO), Ok(wait),
// Err) and counts its calls.  What is decided here is acquire()'s own logic for
// EVERY sequence of try_acquire answers; what the answers mean is decided by the
// window-state harnesses above.
struct Ta {
    magic: [u64; 2],
    results: [AcquireResult; 3],
    calls: u32,
    times: [Duration; 3],
}
static mut TA: Ta = Ta { magic: [0x5452595f41435155, 0x4952455f53435249], results: [Ok(Duration::ZERO); 3], calls: 0, times: [Duration::ZERO; 3] };
fn ta() -> &'static mut Ta {
    unsafe { &mut *core::ptr::addr_of_mut!(TA) }
}
fn scripted_try_acquire(_s: &mut RateLimiterStateInner) -> AcquireResult {
    let t = ta();
    let i = (t.calls as usize).min(2);
    t.times[i] = env::now();
    t.calls += 1;
    t.results[i]
}
/// entry points for the service-level wiring harness (verif_kani::c02)
pub(crate) fn model_script_try_acquire() {
    ta().results = [any_result(), any_result(), any_result()];
}
pub(crate) fn model_scripted_try_acquire(s: &mut RateLimiterStateInner) -> AcquireResult {
    scripted_try_acquire(s)
}
pub(crate) fn model_last_try_granted() -> bool {
    let n = ta().calls as usize;
    n >= 1 && ta().results[(n - 1).min(2)] == Ok(Duration::ZERO)
}
fn any_result() -> AcquireResult {
    let d = any_millis(300_000);
    if kani::any() { Ok(d) } else { Err(d) }
}

#[kani::proof]
#[kani::unwind(4)]
#[kani::stub(std::time::Instant::now, env::now_stub)]
#[kani::stub(RateLimiterStateInner::try_acquire, scripted_try_acquire)]
fn acquire_protocol() {
    init_clock();
    ta().results = [any_result(), any_result(), any_result()];
    let l = SharedRateLimiter::new(WindowType::Fixed, 1, Duration::from_secs(1), Duration::from_secs(1));
    let t0 = env::now();
    let mut fut = Box::pin(l.acquire());
    let mut out = None;
    let mut polls = 0;
    while polls < 3 {
        let p = svc::poll_once(fut.as_mut());
        polls += 1;
        if let Poll::Ready(r) = p {
            out = Some(r);
            break;
        }
        // pending: it is sleeping for exactly the wait the first try_acquire returned
        assert!(ta().calls == 1 && tokio::model::st().sleeps_created == 1, "[C15.pending_only_while_waiting] a pending acquire has asked once and is sleeping");
        let w = match ta().results[0] { Ok(w) => w, Err(_) => Duration::ZERO };
        assert!(matches!(ta().results[0], Ok(x) if x > Duration::ZERO) && tokio::model::st().last_sleep_duration == w,
            "[C15.sleeps_the_offered_wait] acquire sleeps exactly the wait it was offered");
        let d = any_millis(400_000);
        env::advance(d);
        tokio::model::advance(d);
        if env::now() < t0 + w {
            // woken early: must keep waiting without asking again
        } else if polls == 2 {
            // nothing
        }
    }
    let n = ta().calls as usize;
    assert!(n >= 1 && n <= 2, "[C15.at_most_two_tries] acquire asks the window at most twice (once, and once after its single sleep)");
    assert!(tokio::model::st().sleeps_created <= 1, "[C15.one_sleep] at most one sleep per call");
    if let Some(r) = out {
        let last = ta().results[n - 1];
        match r {
            Ok(_) => assert!(last == Ok(Duration::ZERO), "[C02.admitted_holds_a_grant] a caller is admitted only if its last try_acquire consumed a permit (returned Ok(ZERO))"),
            Err(()) => assert!(last != Ok(Duration::ZERO), "[C15.granted_is_admitted] a caller whose try_acquire consumed a permit is admitted"),
        }
        if n == 2 {
            let w = match ta().results[0] { Ok(w) => w, Err(_) => Duration::ZERO };
            assert!(ta().times[1] >= ta().times[0] + w, "[C02.second_try_after_wait] the second try happens only after the offered wait has elapsed");
        } else {
            assert!(!matches!(ta().results[0], Ok(x) if x > Duration::ZERO), "[C15.waits_when_offered] an offered wait is taken");
            assert!(polls == 1, "[C15.immediate_decision] without an offered wait the decision is immediate");
        }
    }
    kani::cover!(n == 2 && matches!(out, Some(Err(()))) && matches!(ta().results[1], Ok(x) if x > Duration::ZERO), "waiter finds the permit gone and is rejected");
    kani::cover!(n == 2 && matches!(out, Some(Ok(_))), "waiter admitted");
    std::mem::forget(fut);
    std::mem::forget(l);
}

/// RateLimiter::call wiring (body in verif_kani::c02; the proof lives here so the
/// private `RateLimiterStateInner::try_acquire` can be named in the stub attribute).
#[kani::proof]
#[kani::unwind(5)]
#[kani::stub(std::time::Instant::now, env::now_stub)]
#[kani::stub(catch_unwind, env::catch_unwind_stub)]
#[kani::stub(RateLimiterStateInner::try_acquire, scripted_try_acquire)]
fn call_wiring() {
    crate::verif_kani::c02::one_call(WindowType::Fixed)
}

/// Configuration reaches the limiter: what `RateLimiterLayer::builder()` is given is what
/// the window state of the built service uses (limit, period, timeout, window type), and
/// clones of the service share one state.
#[kani::proof]
#[kani::unwind(4)]
#[kani::stub(std::time::Instant::now, env::now_stub)]
fn builder_reaches_window_state() {
    use tower::Layer;
    init_clock();
    let limit: usize = kani::any();
    kani::assume(limit >= 1 && limit <= 1000);
    let period = any_millis(100_000);
    let timeout = any_millis(300_000);
    let wt: u8 = kani::any();
    let window = match wt % 3 { 0 => WindowType::Fixed, 1 => WindowType::SlidingLog, _ => WindowType::SlidingCounter };
    let layer = crate::RateLimiterLayer::builder().limit_for_period(limit).refresh_period(period).timeout_duration(timeout).window_type(window).build();
    let mut script = svc::any_script();
    script.never = false;
    let rl = layer.layer(svc::Inner::new(script));
    let rl2 = rl.clone();
    assert!(Arc::ptr_eq(&rl.limiter.state, &rl2.limiter.state), "[C02.clones_share_state] clones of the service share one limiter state");
    let g = rl.limiter.state.lock().unwrap();
    match (&*g, wt % 3) {
        (RateLimiterStateInner::Fixed(f), 0) => assert!(f.limit_for_period == limit && f.refresh_period == period && f.timeout_duration == timeout && f.available_permits == limit,
            "[C02.config_reaches_state] the configured limit, period and timeout are what the fixed window uses; it starts full"),
        (RateLimiterStateInner::SlidingLog(l), 1) => assert!(l.limit_for_period == limit && l.window_duration == period && l.timeout_duration == timeout && l.request_log.is_empty(),
            "[C02.config_reaches_state] the configured limit, period and timeout are what the sliding log uses; it starts empty"),
        (RateLimiterStateInner::SlidingCounter(c), 2) => assert!(c.limit_for_period == limit && c.bucket_duration == period && c.timeout_duration == timeout && c.current_count == 0 && c.previous_count == 0,
            "[C02.config_reaches_state] the configured limit, period and timeout are what the sliding counter uses; it starts empty"),
        _ => assert!(false, "[C02.config_window_type] the configured window type selects the window implementation"),
    }
    drop(g);
    std::mem::forget(rl);
    std::mem::forget(rl2);
    std::mem::forget(layer);
}
