//! C02 / C15 / C20 — wiring of `RateLimiter::call`: the inner service is called
//! exactly once iff acquire() admitted the call; a rejected call goes nowhere.
use crate::config::{RateLimiterConfig, WindowType};
use crate::error::RateLimiterServiceError;
use crate::verif_kani::env::{self, any_millis};
use crate::verif_kani::svc::{self, mon, Inner, InnerErr};
use crate::RateLimiter;
use std::panic::catch_unwind;
use std::task::Poll;
use std::time::Duration;
use tower::Service;

fn one_call(window_type: WindowType) {
    env::set_now(any_millis(500_000));
    tokio::model::set_now(env::now());
    let limit: usize = kani::any();
    kani::assume(limit >= 1 && limit <= 2);
    let cfg = RateLimiterConfig {
        limit_for_period: limit,
        refresh_period: any_millis(100_000),
        timeout_duration: any_millis(300_000),
        window_type,
        event_listeners: tower_resilience_core::EventListeners::new(),
        name: String::new(),
    };
    let mut script = svc::any_script();
    script.never = false;
    script.immediate = true;
    let mut rl = RateLimiter::new(Inner::new(script), std::sync::Arc::new(cfg));
    // use up an arbitrary part of the window first (earlier callers)
    let used: usize = kani::any();
    kani::assume(used <= limit);
    let mut k = 0;
    while k < used {
        let _ = rl.limiter.model_try_acquire();
        k += 1;
    }
    let req: u32 = kani::any();
    let _ = svc::poll_ready_once(&mut rl);
    let mut fut = rl.call(req);
    let mut out = None;
    let mut step = 0;
    while step < 3 {
        if let Poll::Ready(r) = svc::poll_once(fut.as_mut()) {
            out = Some(r);
            break;
        }
        assert!(mon().calls == 0, "[C15.waiting_call_not_forwarded] a waiting call has not reached the wrapped service");
        let d = any_millis(200_000);
        env::advance(d);
        tokio::model::advance(d);
        if kani::any() {
            let _ = rl.limiter.model_try_acquire(); // another caller gets in first
        }
        step += 1;
    }
    if let Some(r) = out {
        match r {
            Ok(v) => assert!(mon().calls == 1 && mon().last_req == req && script.outcomes[0] == Ok(v), "[C15.admitted_reaches_inner_once] an admitted call reaches the wrapped service exactly once, unchanged"),
            Err(RateLimiterServiceError::Inner(InnerErr(e))) => assert!(mon().calls == 1 && script.outcomes[0] == Err(e), "[C20.ratelimiter_error_unchanged] the inner error is returned unchanged"),
            Err(RateLimiterServiceError::RateLimited) => assert!(mon().calls == 0, "[C15.rejected_goes_nowhere] a rejected call never reaches the wrapped service"),
        }
        if used < limit && step == 0 {
            assert!(mon().calls == 1, "[C15.admit_at_once_if_capacity] with spare capacity the call is admitted at once");
        }
    }
    kani::cover!(matches!(out, Some(Err(RateLimiterServiceError::RateLimited))), "rejected");
    kani::cover!(matches!(out, Some(Ok(_))) && step > 0, "admitted after waiting");
    drop(fut);
    std::mem::forget(rl);
}

#[kani::proof]
#[kani::unwind(5)]
#[kani::stub(std::time::Instant::now, env::now_stub)]
#[kani::stub(catch_unwind, env::catch_unwind_stub)]
fn call_wiring_fixed() { one_call(WindowType::Fixed) }
#[kani::proof]
#[kani::unwind(5)]
#[kani::stub(std::time::Instant::now, env::now_stub)]
#[kani::stub(catch_unwind, env::catch_unwind_stub)]
fn call_wiring_sliding_log() { one_call(WindowType::SlidingLog) }
#[kani::proof]
#[kani::unwind(5)]
#[kani::stub(std::time::Instant::now, env::now_stub)]
#[kani::stub(catch_unwind, env::catch_unwind_stub)]
fn call_wiring_sliding_counter() { one_call(WindowType::SlidingCounter) }
