//! C02 / C15 / C20 — wiring of `RateLimiter::call`: the inner service is called
//! exactly once iff acquire() admitted the call; a rejected call goes nowhere.
use crate::config::{RateLimiterConfig, WindowType};
use crate::error::RateLimiterServiceError;
use crate::verif_kani::env::{self, any_millis};
use crate::verif_kani::svc::{self, mon, Inner, InnerErr};
use crate::RateLimiter;
use std::panic::catch_unwind;
use std::task::Poll;
use std::time::Duration;
use tower::Service;

/// try_acquire answers are scripted (see in_limiter.rs: through the heap-allocated
/// state CBMC explores all three window implementations and runs out of memory).
pub(crate) fn one_call(window_type: WindowType) {
    env::set_now(any_millis(500_000));
    tokio::model::set_now(env::now());
    crate::limiter::verif_kani_in_limiter::model_script_try_acquire();
    let cfg = RateLimiterConfig {
        limit_for_period: 1,
        refresh_period: Duration::from_secs(1),
        timeout_duration: Duration::from_secs(1),
        window_type,
        event_listeners: tower_resilience_core::EventListeners::new(),
        name: String::new(),
    };
    let mut script = svc::any_script();
    script.never = false;
    script.immediate = true;
    let mut rl = RateLimiter::new(Inner::new(script), std::sync::Arc::new(cfg));
    let req: u32 = kani::any();
    let _ = svc::poll_ready_once(&mut rl);
    let mut fut = rl.call(req);
    let mut out = None;
    let mut step = 0;
    while step < 3 {
        if let Poll::Ready(r) = svc::poll_once(fut.as_mut()) {
            out = Some(r);
            break;
        }
        assert!(mon().calls == 0, "[C15.waiting_call_not_forwarded] a waiting call has not reached the wrapped service");
        let d = any_millis(400_000);
        env::advance(d);
        tokio::model::advance(d);
        step += 1;
    }
    let granted = crate::limiter::verif_kani_in_limiter::model_last_try_granted();
    assert!(mon().unready_calls == 0, "[C20.ratelimiter_ready_instance] the call goes to the instance on which readiness was observed");
    if let Some(r) = &out {
        match r {
            Ok(v) => assert!(granted && mon().calls == 1 && mon().last_req == req && script.outcomes[0] == Ok(*v), "[C15.admitted_reaches_inner_once] an admitted call reaches the wrapped service exactly once, unchanged"),
            Err(RateLimiterServiceError::Inner(InnerErr(e))) => assert!(granted && mon().calls == 1 && script.outcomes[0] == Err(*e), "[C20.ratelimiter_error_unchanged] the inner error is returned unchanged"),
            Err(RateLimiterServiceError::RateLimited) => assert!(!granted && mon().calls == 0, "[C15.rejected_goes_nowhere] a rejected call never reaches the wrapped service"),
        }
    }
    kani::cover!(matches!(out, Some(Err(RateLimiterServiceError::RateLimited))), "rejected");
    kani::cover!(matches!(out, Some(Ok(_))) && step > 0, "admitted after waiting");
    drop(fut);
    std::mem::forget(rl);
}

