//! In-crate Kani harnesses for tower-resilience-ratelimiter.
pub mod env;
pub mod svc;
pub mod c02;
