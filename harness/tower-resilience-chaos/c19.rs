//! C19 — chaos injection: bounded, skips the inner call on injected errors,
//! transparent at rate 0, deterministic in the seed.
use crate::config::{ChaosConfig, CustomErrorFn};
use crate::service::Chaos;
use crate::verif_kani::svc::{self, mon, Inner, InnerErr};
use rand::ghost::g as rg;
use std::panic::catch_unwind;
use std::task::Poll;
use std::time::Duration;
use tokio::model::{self, st};
use tower_service::Service;

const INJECTED: u32 = 0xdead_0c19;
type Inj = CustomErrorFn<fn(&u32) -> InnerErr>;
fn inject(_r: &u32) -> InnerErr {
    InnerErr(INJECTED)
}

fn any_millis(max_ms: u64) -> Duration {
    let secs: u64 = kani::any();
    let ms: u32 = kani::any();
    kani::assume(ms < 1000 && secs <= max_ms / 1000 && (secs < max_ms / 1000 || (ms as u64) <= max_ms % 1000));
    Duration::new(secs, ms * 1_000_000)
}
fn any_rate() -> f64 {
    let r: f64 = kani::any();
    kani::assume(r >= 0.0 && r <= 1.0);
    r
}

fn mk(er: f64, lr: f64, min_l: Duration, max_l: Duration, seed: Option<u64>, script: svc::Script) -> Chaos<Inner, Inj> {
    let cfg = ChaosConfig {
        name: String::new(),
        error_injector: CustomErrorFn::new(inject as fn(&u32) -> InnerErr, er),
        latency_rate: lr,
        min_latency: min_l,
        max_latency: max_l,
        seed,
        event_listeners: tower_resilience_core::EventListeners::new(),
    };
    Chaos::new(Inner::new(script), cfg)
}

struct Outcome {
    result: Option<Result<u32, InnerErr>>,
    draws: u32,
    slept: u32,
    sleep_for: Duration,
    inner_calls: u32,
}

/// Drive one request to completion.  The inner future completes at its first
/// poll.  Poll 1 at the current instant; if pending (an injected delay is
/// running) poll 2 after an arbitrary advance and check it resolves iff the
/// delay has elapsed; poll 3 after the longest possible delay.
fn drive(c: &mut Chaos<Inner, Inj>, req: u32) -> Outcome {
    let d0 = rg().draws;
    let s0 = st().sleeps_created;
    let c0 = mon().calls;
    let _ = svc::poll_ready_once(c);
    let mut fut = c.call(req);
    let t0 = model::now();
    let mut result = None;
    if let Poll::Ready(r) = svc::poll_once(fut.as_mut()) {
        result = Some(r);
    } else {
        assert!(st().sleeps_created == s0 + 1, "[C19.pending_only_while_delayed] the call is pending only during an injected delay");
        let delay = st().last_sleep_duration;
        model::advance(any_millis(150_000));
        let p = svc::poll_once(fut.as_mut());
        if model::now() < t0 + delay {
            assert!(p.is_pending() && mon().calls == c0, "[C19.latency_before_inner] the wrapped service is not called before the injected delay has elapsed");
        } else {
            assert!(p.is_ready(), "[C19.resumes_after_delay] the call proceeds as soon as the injected delay has elapsed");
        }
        if let Poll::Ready(r) = p {
            result = Some(r);
        } else {
            model::advance(Duration::from_secs(200));
            if let Poll::Ready(r) = svc::poll_once(fut.as_mut()) {
                result = Some(r);
            }
        }
    }
    drop(fut);
    Outcome {
        result,
        draws: rg().draws - d0,
        slept: st().sleeps_created - s0,
        sleep_for: st().last_sleep_duration,
        inner_calls: mon().calls - c0,
    }
}

/// Every pair of rolls in [0,1), every pair of rates in [0,1], every latency
/// range in whole milliseconds (min < = > max), every seed.
#[kani::proof]
#[kani::unwind(9)]
#[kani::stub(std::time::Instant::now, tokio::model::std_instant_now)]
#[kani::stub(catch_unwind, crate::verif_kani::env::catch_unwind_stub)]
fn one_request_all_rolls() {
    let er = any_rate();
    let lr = any_rate();
    let min_l = any_millis(100_000);
    let max_l = any_millis(100_000);
    let mut script = svc::any_script();
    script.never = false;
    script.immediate = true;
    let mut c = mk(er, lr, min_l, max_l, Some(kani::any()), script);
    assert!(rg().seeded == 1 && rg().os_seeded == 0, "[C19.seeded_rng_from_seed] with a seed the generator is created from the seed, not from the OS");
    let req: u32 = kani::any();
    let o = drive(&mut c, req);
    assert!(rg().thread_rng_used == 0 && rg().os_seeded == 0, "[C19.only_seeded_randomness] no randomness source other than the seeded generator is used");
    assert!(o.result.is_some(), "[C19.terminates] the call resolves once the injected latency has elapsed and the inner call completed");
    let r = o.result.unwrap();
    let roll1 = rg().f64_log[0];
    let error_rolled = er > 0.0;
    let injected_error = error_rolled && roll1 < er;
    // number and order of draws is a function of config and rolls only
    if injected_error {
        assert!(r == Err(InnerErr(INJECTED)), "[C19.injected_error_returned] an injected error is what the caller gets");
        assert!(o.inner_calls == 0, "[C19.injected_error_skips_inner] an injected error means the wrapped service is not called");
        assert!(o.slept == 0, "[C19.injected_error_no_latency] no latency on an injected error");
        assert!(o.draws == 1, "[C19.draw_count] one draw decides an injected error");
    } else {
        assert!(o.inner_calls == 1 && mon().last_req == req, "[C19.pass_forwards_once] a request that is not failed reaches the wrapped service exactly once, unchanged");
        assert!(mon().unready_calls == 0, "[C20.chaos_ready_instance] the call goes to the instance on which readiness was observed");
        assert!(r == script.outcomes[0].map_err(InnerErr), "[C19.pass_result_unchanged] the inner result is returned unchanged");
        let lat_rolled = lr > 0.0;
        let idx = if error_rolled { 1 } else { 0 };
        let injected_latency = lat_rolled && rg().f64_log[idx] < lr;
        // (min_l / max_l are whole milliseconds by construction, so they equal their truncation;
        //  comparing Durations avoids 128-bit as_millis() arithmetic in the harness)
        if injected_latency {
            assert!(o.slept == 1, "[C19.latency_sleeps_once] injected latency is one sleep");
            assert!(o.sleep_for.subsec_nanos() % 1_000_000 == 0, "[C19.latency_whole_ms] injected latency is a whole number of milliseconds");
            if max_l > min_l {
                assert!(o.sleep_for >= min_l && o.sleep_for <= max_l, "[C19.latency_in_range] injected latency lies within [min_latency, max_latency]");
                assert!(o.draws == idx as u32 + 2, "[C19.draw_count] rolls + one range draw");
            } else {
                assert!(o.sleep_for == min_l, "[C19.latency_degenerate_range] with min >= max the injected latency is min_latency");
                assert!(o.draws == idx as u32 + 1, "[C19.draw_count] no range draw for a degenerate range");
            }
        } else {
            assert!(o.slept == 0, "[C19.no_latency_no_sleep] without injected latency there is no sleep");
            assert!(o.draws == (error_rolled as u32) + (lat_rolled as u32), "[C19.draw_count] one draw per enabled decision");
        }
    }
    if er == 0.0 && lr == 0.0 {
        assert!(o.draws == 0 && o.slept == 0 && o.inner_calls == 1, "[C19.transparent_at_zero] with both rates 0 the layer is transparent");
    }
    if er == 1.0 {
        assert!(r == Err(InnerErr(INJECTED)) && o.inner_calls == 0, "[C19.always_fails_at_one] with error rate 1 every call fails");
    }
    kani::cover!(injected_error, "error injected");
    kani::cover!(o.slept == 1 && max_l > min_l, "latency injected from a proper range");
    std::mem::forget(c);
}

/// Stream sharing, light version (quick tier): with error rate 1 every request draws
/// exactly one value and resolves at once; two requests through two CLONES of one seeded
/// service must consume positions 0 and 1 of ONE stream (a clone that forks the generator
/// would replay position 0), and a second service built from the same seed starts at
/// position 0 again.
#[kani::proof]
#[kani::unwind(9)]
#[kani::stub(std::time::Instant::now, tokio::model::std_instant_now)]
#[kani::stub(catch_unwind, crate::verif_kani::env::catch_unwind_stub)]
fn clones_share_one_seeded_stream() {
    let seed: u64 = kani::any();
    let mut script = svc::any_script();
    script.never = false;
    script.immediate = true;
    let c1 = mk(1.0, 0.0, Duration::ZERO, Duration::ZERO, Some(seed), script);
    let mut a = c1.clone();
    let mut b = c1.clone();
    let o1 = drive(&mut a, 1);
    let o2 = drive(&mut b, 2);
    assert!(o1.draws == 1 && o2.draws == 1 && o1.inner_calls == 0 && o2.inner_calls == 0, "[C19.always_fails_at_one] with error rate 1 every call fails after one draw");
    assert!(rg().pos_log[0] == 0 && rg().pos_log[1] == 1, "[C19.one_stream_for_all_clones] clones draw from one shared, advancing random stream");
    assert!(rg().seeded == 1 && rg().last_seed == seed && rg().os_seeded == 0, "[C19.seeded_rng_from_seed] the generator is created once, from the configured seed");
    let mut c2 = mk(1.0, 0.0, Duration::ZERO, Duration::ZERO, Some(seed), script);
    let _ = drive(&mut c2, 3);
    assert!(rg().pos_log[2] == 0 && rg().last_seed == seed, "[C19.deterministic_replay] a service built from the same seed replays the stream from its start");
    std::mem::forget(a);
    std::mem::forget(b);
    std::mem::forget(c1);
    std::mem::forget(c2);
}

/// Determinism and stream sharing: two requests through two CLONES of one
/// seeded service consume consecutive positions of ONE random stream; and a
/// second service built from the same seed and fed the same stream makes the
/// same decisions.
#[kani::proof]
#[kani::unwind(9)]
#[kani::stub(std::time::Instant::now, tokio::model::std_instant_now)]
#[kani::stub(catch_unwind, crate::verif_kani::env::catch_unwind_stub)]
fn deterministic_in_seed_and_order() {
    let er = any_rate();
    let lr = any_rate();
    let min_l = any_millis(100_000);
    let max_l = any_millis(100_000);
    let seed: u64 = kani::any();
    let mut script = svc::any_script();
    script.never = false;
    script.immediate = true;
    // the seeded stream: arbitrary but fixed
    let mut k = 0;
    while k < 8 {
        let v: f64 = kani::any();
        kani::assume(v >= 0.0 && v < 1.0);
        rg().script[k] = v;
        rg().script_u64[k] = kani::any();
        k += 1;
    }
    rg().script_on = true;
    let c1 = mk(er, lr, min_l, max_l, Some(seed), script);
    let mut a = c1.clone();
    let mut b = c1.clone();
    let o1 = drive(&mut a, 1);
    let o2 = drive(&mut b, 2);
    // positions consumed across the two requests are 0,1,2,... of one stream
    let total = (o1.draws + o2.draws) as usize;
    let mut i = 0;
    while i < total && i < 8 {
        assert!(rg().pos_log[i] as usize == i, "[C19.one_stream_for_all_clones] clones draw from one shared, advancing random stream");
        i += 1;
    }
    // replay: same seed, same order of requests => same decisions and latencies
    let d1 = (o1.result.map(|r| r.is_err() && r == Err(InnerErr(INJECTED))), o1.slept, o1.sleep_for);
    let d2 = (o2.result.map(|r| r.is_err() && r == Err(InnerErr(INJECTED))), o2.slept, o2.sleep_for);
    rg().draws = 0;
    let mut c2 = mk(er, lr, min_l, max_l, Some(seed), script);
    let p1 = drive(&mut c2, 1);
    let p2 = drive(&mut c2, 2);
    let e1 = (p1.result.map(|r| r.is_err() && r == Err(InnerErr(INJECTED))), p1.slept, p1.sleep_for);
    let e2 = (p2.result.map(|r| r.is_err() && r == Err(InnerErr(INJECTED))), p2.slept, p2.sleep_for);
    assert!(d1 == e1 && d2 == e2, "[C19.deterministic_replay] same seed and request order give the same inject/pass decisions and latencies");
    kani::cover!(o1.draws == 3 && o2.draws == 3, "both requests draw three values");
    std::mem::forget(a);
    std::mem::forget(b);
    std::mem::forget(c1);
    std::mem::forget(c2);
}

/// Configuration reaches the service whatever the order of the builder calls: seed,
/// latency rate and latency bounds set BEFORE `error_rate`, BETWEEN `error_rate` and
/// `error_fn` (the two type-changing steps) or AFTER `error_fn` are the ones in the
/// layer's config, together with the error rate.
#[kani::proof]
#[kani::unwind(4)]
fn builder_is_faithful() {
    let seed: u64 = kani::any();
    let er = any_rate();
    let lr = any_rate();
    let min_l = any_millis(100_000);
    let max_l = any_millis(100_000);
    let stage: u8 = kani::any();
    kani::assume(stage < 3);
    let mut b0 = crate::ChaosLayer::builder();
    if stage == 0 {
        b0 = b0.seed(seed).latency_rate(lr).min_latency(min_l).max_latency(max_l);
    }
    let mut b1 = b0.error_rate(er);
    if stage == 1 {
        b1 = b1.seed(seed).latency_rate(lr).min_latency(min_l).max_latency(max_l);
    }
    let mut b2 = b1.error_fn(inject as fn(&u32) -> InnerErr);
    if stage == 2 {
        b2 = b2.seed(seed).latency_rate(lr).min_latency(min_l).max_latency(max_l);
    }
    let layer = b2.build();
    let c = layer.model_config();
    assert!(c.seed == Some(seed), "[C19.config_seed_used] the configured seed reaches the layer whatever the builder order");
    assert!(crate::config::ErrorInjector::<u32, InnerErr>::error_rate(&c.error_injector) == er, "[C19.config_error_rate_used] the configured error rate reaches the layer");
    assert!(c.latency_rate == lr && c.min_latency == min_l && c.max_latency == max_l, "[C19.config_latency_used] the configured latency rate and bounds reach the layer");
    std::mem::forget(layer);
}

/// C20 readiness clause for the chaos layer: see svc::check_readiness_passthrough.
#[kani::proof]
#[kani::unwind(4)]
#[kani::stub(std::time::Instant::now, tokio::model::std_instant_now)]
fn readiness_passthrough() {
    let mut c = mk(any_rate(), any_rate(), Duration::ZERO, Duration::ZERO, Some(kani::any()), svc::any_script());
    svc::check_readiness_passthrough(&mut c);
    assert!(rg().draws == 0, "[C19.no_draw_for_readiness] polling readiness consumes no randomness");
    std::mem::forget(c);
}
