//! Child module of `layer`: read access to the layer's (private) config for the
//! builder-faithfulness harness.
use super::*;
impl<E> ChaosLayer<E> {
    pub(crate) fn model_config(&self) -> &crate::config::ChaosConfig<E> {
        &self.config
    }
}
