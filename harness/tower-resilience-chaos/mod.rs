//! In-crate Kani harnesses for tower-resilience-chaos.
pub mod env;
pub mod svc;
pub mod c19;
