//! C20 (executor part) — the executor layer is transparent and honours
//! readiness: one call through the real `ExecutorService::call` with the model
//! runtime handle; the harness schedules the spawned task.
use crate::service::{ExecutorError, ExecutorService};
use crate::verif_kani::svc::{self, mon, Inner, InnerErr};
use std::task::Poll;
use tokio::model::{self, st};
use tower_service::Service;

#[kani::proof]
#[kani::unwind(5)]
fn executor_transparent() {
    let mut script = svc::any_script();
    script.never = false;
    let mut s = ExecutorService::new(Inner::new(script), tokio::runtime::Handle::current());
    let req: u32 = kani::any();
    let rdy = svc::poll_ready_once(&mut s);
    assert!(matches!(rdy, Poll::Ready(Ok(()))), "[C20.executor_ready_passthrough] inner readiness is passed through");
    let mut fut = Box::pin(s.call(req));
    assert!(st().spawned == 1 && st().handle_spawns == 1, "[C20.executor_spawns_once] the call is spawned once on the configured executor");
    let mut out = None;
    let mut k = 0;
    while k < 3 && out.is_none() {
        if kani::any() {
            model::poll_task(0);
        }
        if let Poll::Ready(r) = svc::poll_once(fut.as_mut()) {
            out = Some(r);
        } else {
            assert!(mon().completed == 0 || model::task_alive(0), "[C20.executor_result_when_available] the call resolves once the spawned task has delivered its result");
        }
        k += 1;
    }
    assert!(mon().calls <= 1 && (mon().calls == 0 || mon().last_req == req), "[C20.executor_forwards_once] the request is forwarded exactly once, unchanged");
    assert!(mon().unready_calls == 0, "[C20.executor_ready_instance] the call goes to the instance on which readiness was observed");
    if let Some(r) = out {
        match r {
            Ok(v) => assert!(script.outcomes[0] == Ok(v) && mon().completed == 1, "[C20.executor_ok_unchanged] the inner response is returned unchanged"),
            Err(ExecutorError::Service(InnerErr(e))) => assert!(script.outcomes[0] == Err(e) && mon().completed == 1, "[C20.executor_err_unchanged] the inner error is returned unchanged in the Service variant"),
            Err(ExecutorError::TaskCancelled) => assert!(false, "[C20.executor_no_spurious_cancel] TaskCancelled only when the task was cancelled"),
        }
    }
    kani::cover!(mon().completed == 1, "completed");
    std::mem::forget(fut);
    std::mem::forget(s);
}

/// Pending / failing inner readiness surfaces as pending / a readiness error.
#[kani::proof]
#[kani::unwind(5)]
fn executor_readiness_passthrough() {
    let mut script = svc::any_script();
    script.ready = kani::any();
    kani::assume(script.ready == 1 || script.ready == 2);
    let mut s = ExecutorService::new(Inner::new(script), tokio::runtime::Handle::current());
    let rdy = svc::poll_ready_once(&mut s);
    if script.ready == 1 {
        assert!(rdy.is_pending(), "[C20.executor_pending_passthrough] pending inner readiness is pending readiness");
    } else {
        assert!(matches!(rdy, Poll::Ready(Err(ExecutorError::Service(InnerErr(777))))), "[C20.executor_ready_error_passthrough] a readiness error surfaces as a readiness error");
    }
    std::mem::forget(s);
}
