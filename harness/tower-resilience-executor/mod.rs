//! In-crate Kani harnesses for tower-resilience-executor.
pub mod env;
pub mod svc;
pub mod c20;
