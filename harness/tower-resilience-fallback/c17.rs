//! C17 — fallback never replaces a success and handles exactly the errors it
//! should.  One request through the real `Fallback::call`, configuration built
//! through the public builder (strategy and predicate set in either order).
use crate::error::FallbackError;
use crate::layer::FallbackLayer;
use crate::verif_kani::svc::{self, mon, Inner, InnerErr};
use std::panic::catch_unwind;
use std::task::Poll;
use tower::Service;
use tower_layer::Layer;

/// ghost counters of the strategy closures (unique initialiser, see models/rand)
struct G {
    magic: [u64; 2],
    value_fn: u32,
    from_error: u32,
    from_req_err: u32,
    backup: u32,
    backup_polled: u32,
    exception: u32,
    predicate: u32,
    backup_req: u32,
    seen_err: u32,
    seen_req: u32,
    backup_ok: bool,
    pred_mask: u32,
}
static mut GH: G = G {
    magic: [0x46414c4c4241434b, 0x5f4331375f47484f],
    value_fn: 0, from_error: 0, from_req_err: 0, backup: 0, backup_polled: 0, exception: 0, predicate: 0,
    backup_req: 0, seen_err: 0, seen_req: 0, backup_ok: true, pred_mask: 1,
};
fn gh() -> &'static mut G {
    unsafe { &mut *core::ptr::addr_of_mut!(GH) }
}

const V_VALUE: u32 = 0x1000_0001;
const V_VALUE_FN: u32 = 0x1000_0002;
fn resp_from_error(e: &InnerErr) -> u32 { e.0 ^ 0x0f0f_0f0f }
fn resp_from_req_err(r: &u32, e: &InnerErr) -> u32 { r.wrapping_mul(31) ^ e.0 }
fn backup_ok(r: u32) -> u32 { r ^ 0x5555_5555 }
fn backup_err(r: u32) -> InnerErr { InnerErr(r ^ 0x3333_3333) }
fn transform(e: InnerErr) -> InnerErr { InnerErr(e.0.wrapping_add(7)) }
/// the handle predicate: accepts errors whose code has a bit of `pred_mask`
fn accepts(e: &InnerErr) -> bool { e.0 & gh().pred_mask != 0 }

struct BackupFut { req: u32 }
impl std::future::Future for BackupFut {
    type Output = Result<u32, InnerErr>;
    fn poll(self: std::pin::Pin<&mut Self>, _cx: &mut std::task::Context<'_>) -> Poll<Self::Output> {
        gh().backup_polled += 1;
        if gh().backup_ok { Poll::Ready(Ok(backup_ok(self.req))) } else { Poll::Ready(Err(backup_err(self.req))) }
    }
}

fn build(strategy: u8, with_pred: bool, pred_first: bool) -> FallbackLayer<u32, u32, InnerErr> {
    let mut b = FallbackLayer::<u32, u32, InnerErr>::builder();
    if with_pred && pred_first {
        b = b.handle(|e: &InnerErr| { gh().predicate += 1; accepts(e) });
    }
    b = match strategy {
        0 => b.value(V_VALUE),
        1 => b.value_fn(|| { gh().value_fn += 1; V_VALUE_FN }),
        2 => b.from_error(|e: &InnerErr| { gh().from_error += 1; gh().seen_err = e.0; resp_from_error(e) }),
        3 => b.from_request_error(|r: &u32, e: &InnerErr| { gh().from_req_err += 1; gh().seen_err = e.0; gh().seen_req = *r; resp_from_req_err(r, e) }),
        4 => b.service(|r: u32| { gh().backup += 1; gh().backup_req = r; BackupFut { req: r } }),
        _ => b.exception(|e: InnerErr| { gh().exception += 1; gh().seen_err = e.0; transform(e) }),
    };
    if with_pred && !pred_first {
        b = b.handle(|e: &InnerErr| { gh().predicate += 1; accepts(e) });
    }
    b.build()
}

fn strategy_runs() -> u32 {
    let g = gh();
    g.value_fn + g.from_error + g.from_req_err + g.backup + g.exception
}

fn one_request(strategy: u8) {
    let with_pred: bool = kani::any();
    let pred_first: bool = kani::any();
    gh().backup_ok = kani::any();
    gh().pred_mask = kani::any();
    let layer = build(strategy, with_pred, pred_first);
    let mut script = svc::any_script();
    script.never = false;
    script.immediate = true;
    let mut f = layer.layer(Inner::new(script));
    let req: u32 = kani::any();
    let _ = svc::poll_ready_once(&mut f);
    let mut fut = f.call(req);
    assert!(strategy_runs() == 0 && gh().backup == 0, "[C17.strategy_not_run_eagerly] no strategy runs before the inner outcome is known");
    let p = svc::poll_once(fut.as_mut());
    assert!(p.is_ready(), "[C17.resolves] resolves as soon as the inner call (and the backup) resolved");
    let r = match p { Poll::Ready(r) => r, Poll::Pending => return };
    assert!(mon().calls == 1 && mon().last_req == req, "[C17.forwards_once] the request is forwarded once, unchanged");
    assert!(mon().unready_calls == 0, "[C20.fallback_ready_instance] the call goes to the instance on which readiness was observed");
    match script.outcomes[0] {
        Ok(v) => {
            assert!(matches!(r, Ok(x) if x == v), "[C17.success_passes_unchanged] a successful inner response passes through unchanged");
            assert!(strategy_runs() == 0 && gh().predicate == 0 && gh().backup_polled == 0, "[C17.success_never_triggers] a success never triggers the fallback or the predicate");
        }
        Err(e) => {
            let handled = !with_pred || accepts(&InnerErr(e));
            if with_pred {
                assert!(gh().predicate == 1, "[C17.predicate_consulted_once] a configured predicate is consulted exactly once, on the inner error");
            } else {
                assert!(gh().predicate == 0, "[C17.no_predicate] without a predicate none is consulted");
            }
            if !handled {
                assert!(matches!(r, Err(FallbackError::Inner(InnerErr(x))) if x == e), "[C17.refused_error_unchanged] an error the predicate refuses is returned unchanged");
                assert!(strategy_runs() == 0 && gh().backup_polled == 0, "[C17.refused_error_no_strategy] a refused error never triggers the strategy");
            } else {
                match strategy {
                    0 => assert!(matches!(r, Ok(x) if x == V_VALUE) && strategy_runs() == 0, "[C17.value] the static value"),
                    1 => assert!(matches!(r, Ok(x) if x == V_VALUE_FN) && gh().value_fn == 1 && strategy_runs() == 1, "[C17.value_fn] the value function's result, called once"),
                    2 => assert!(matches!(r, Ok(x) if x == resp_from_error(&InnerErr(e))) && gh().from_error == 1 && gh().seen_err == e && strategy_runs() == 1, "[C17.from_error] computed from this error, once"),
                    3 => assert!(matches!(r, Ok(x) if x == resp_from_req_err(&req, &InnerErr(e))) && gh().from_req_err == 1 && gh().seen_err == e && gh().seen_req == req && strategy_runs() == 1, "[C17.from_request_error] computed from this request and this error, once"),
                    4 => {
                        assert!(gh().backup == 1 && gh().backup_req == req && gh().backup_polled == 1 && strategy_runs() == 1, "[C17.backup_called_once] the backup service is called once with the request");
                        if gh().backup_ok {
                            assert!(matches!(r, Ok(x) if x == backup_ok(req)), "[C17.backup_ok] the backup's response is returned");
                        } else {
                            assert!(matches!(r, Err(FallbackError::FallbackFailed(InnerErr(x))) if x == backup_err(req).0), "[C17.backup_failed] a failing backup yields FallbackFailed with the backup's error");
                        }
                    }
                    _ => assert!(matches!(r, Err(FallbackError::Inner(InnerErr(x))) if x == transform(InnerErr(e)).0) && gh().exception == 1 && gh().seen_err == e && strategy_runs() == 1, "[C17.exception] the transformed error, in the Inner variant"),
                }
            }
        }
    }
    kani::cover!(matches!(script.outcomes[0], Err(_)) && with_pred && pred_first && gh().predicate == 1 && strategy_runs() + (strategy == 0) as u32 > 0, "predicate set first, error handled");
    drop(fut);
    std::mem::forget(f);
    std::mem::forget(layer);
}

macro_rules! proofs { ($($name:ident = $k:expr),*) => {$(
    #[kani::proof]
    #[kani::unwind(4)]
    #[kani::stub(std::time::Instant::now, tokio::model::std_instant_now)]
    #[kani::stub(catch_unwind, crate::verif_kani::env::catch_unwind_stub)]
    fn $name() { one_request($k) }
)*}}
proofs!(strategy_value = 0, strategy_value_fn = 1, strategy_from_error = 2, strategy_from_request_error = 3, strategy_backup_service = 4, strategy_exception = 5);
