//! In-crate Kani harnesses for tower-resilience-fallback.
pub mod env;
pub mod svc;
pub mod c17;
