//! C16 — reconnect retries only connection failures, a bounded number of
//! times.  One request through the real `ReconnectService::call` /
//! `ReconnectFuture::poll` state machine, with another request on a clone of the
//! same layer succeeding at arbitrary moments (shared published state).
use crate::config::ReconnectConfig;
use crate::policy::ReconnectPolicy;
use crate::service::{ReconnectError, ReconnectService};
use crate::state::{ConnectionState, ReconnectState};
use crate::verif_kani::svc::{self, mon, Inner, InnerErr};
use std::sync::Arc;
use std::task::Poll;
use std::time::Duration;
use tokio::model::{self, st};
use tower::Service;

struct G {
    magic: [u64; 2],
    delays: [Duration; 4],
    asked: [u32; 4],
    asks: u32,
    pred_calls: u32,
    policy_none: bool,
}
static mut GH: G = G { magic: [0x5245434f4e4e4543, 0x545f4331365f4748], delays: [Duration::ZERO; 4], asked: [99; 4], asks: 0, pred_calls: 0, policy_none: false };
fn gh() -> &'static mut G {
    unsafe { &mut *core::ptr::addr_of_mut!(GH) }
}
fn reconnectable(e: u32) -> bool {
    e & 1 == 1
}
fn any_millis(max_ms: u64) -> Duration {
    let secs: u64 = kani::any();
    let ms: u32 = kani::any();
    kani::assume(ms < 1000 && secs <= max_ms / 1000 && (secs < max_ms / 1000 || (ms as u64) <= max_ms % 1000));
    Duration::new(secs, ms * 1_000_000)
}

/// `ReconnectPolicy::delay_for_attempt` is replaced by a script: through the
/// heap-allocated config CBMC explores every policy variant at every call,
/// including the f64/powi/rand code of the exponential ones (2.7 M symex steps,
/// solver crash).  What the real function returns is C14; here it returns the
/// harness-chosen delay for the attempt (or None for "no policy") and logs the
/// attempt number it was asked for.
fn scripted_delay(_p: &ReconnectPolicy, attempt: usize) -> Option<Duration> {
    let g = gh();
    if (g.asks as usize) < 4 {
        g.asked[g.asks as usize] = attempt as u32;
    }
    g.asks += 1;
    if g.policy_none { None } else { Some(g.delays[attempt.min(3)]) }
}

fn mk_cfg(policy_kind: u8, with_pred: bool, retry_on_reconnect: bool, max_attempts: Option<u32>, fixed: Duration) -> ReconnectConfig {
    gh().policy_none = policy_kind == 0;
    if policy_kind == 1 {
        gh().delays = [fixed, fixed, fixed, fixed];
    }
    let policy = ReconnectPolicy::none();
    let mut cfg = ReconnectConfig::default();
    cfg.policy = policy;
    cfg.max_attempts = max_attempts;
    cfg.retry_on_reconnect = retry_on_reconnect;
    if with_pred {
        cfg.reconnect_predicate = Some(Arc::new(|e: &dyn std::error::Error| {
            gh().pred_calls += 1;
            // errors are compared through their code (InnerErr is the only error type here)
            let code = unsafe { &*(e as *const dyn std::error::Error as *const InnerErr) }.0;
            reconnectable(code)
        }));
    }
    cfg
}

/// policy: 0 = None, 1 = Fixed, 2 = Custom (per-attempt symbolic delays).
/// Schedule: poll; while pending (backing off) advance the clock by exactly the
/// policy's delay and poll again; inner calls complete at their first poll.
/// Before every poll another request on a clone of the layer may succeed
/// (mark the shared state connected).
fn one_request(policy_kind: u8, with_pred: bool, retry_on_reconnect: bool) {
    let max_attempts: Option<u32> = if kani::any() { None } else { let m: u32 = kani::any(); kani::assume(m <= 1); Some(m) };
    gh().delays = [any_millis(10_000), any_millis(10_000), any_millis(10_000), any_millis(10_000)];
    let fixed = any_millis(10_000);
    let cfg = mk_cfg(policy_kind, with_pred, retry_on_reconnect, max_attempts, fixed);
    let shared = ReconnectState::new();
    let mut script = svc::any_script();
    script.never = false;
    script.immediate = true;
    // the 4th inner call succeeds: with zero delays the whole sequence runs inside ONE poll, so the
    // number of failures must be bounded for the poll loop to be (ReconnectFuture::poll unwinds 10)
    script.outcomes[3] = Ok(kani::any());
    let mut s = ReconnectService::new(Inner::new(script), Arc::new(cfg), shared.clone());
    let req: u32 = kani::any();
    let _ = svc::poll_ready_once(&mut s);
    let mut fut = Box::pin(s.call(req));
    let mut out = None;
    let mut step = 0;
    while step < 3 {
        if kani::any() {
            shared.mark_connected(); // another request succeeded
        }
        let (calls0, sleeps0) = (mon().calls, st().sleeps_created);
        let t_poll = model::now();
        let p = svc::poll_once(fut.as_mut());
        if mon().calls > calls0 && step > 0 {
            assert!(retry_on_reconnect, "[C16.no_retry_when_disabled] no retry when retry_on_reconnect is off");
        }
        if let Poll::Ready(r) = p {
            out = Some(r);
            break;
        }
        // pending: a reconnectable failure is being handled and the layer is backing off
        assert!(st().sleeps_created >= sleeps0 + 1 && mon().live == 0, "[C16.pending_only_in_backoff] with completed inner calls the request is pending only while backing off");
        // back-offs created and finished inside this one poll must have been zero
        let mut j = sleeps0 as usize + 1;
        while j < st().sleeps_created as usize {
            assert!(gh().delays[j.min(3)] == Duration::ZERO, "[C16.waits_policy_delay] a non-zero delay is never skipped");
            j += 1;
        }
        let k = st().sleeps_created as usize; // number of the attempt that failed (1-based)
        let d = gh().delays[k.min(3)];
        assert!(st().last_sleep_duration == d, "[C16.waits_policy_delay] before each retry it waits the policy's delay for that attempt");
        assert!(shared.state() != ConnectionState::Connected, "[C16.not_connected_while_failing] the published state is not Connected right after a reconnectable failure");
        let _ = t_poll;
        model::advance(d);
        step += 1;
    }
    let calls = mon().calls as usize;
    assert!(calls >= 1, "[C16.at_least_once] the wrapped service is called");
    if let Some(m) = max_attempts {
        assert!(calls <= m as usize + 1, "[C16.bounded_attempts] at most max_attempts + 1 calls for one request");
    }
    assert!(mon().last_req == req, "[C16.same_request] every attempt carries the request");
    assert!(mon().unready_mask & 1 == 0, "[C20.reconnect_first_attempt_ready] the first attempt goes to the instance on which readiness was observed");
    {
        let mut k = 0;
        while k < 4 && k < gh().asks as usize {
            assert!(gh().asked[k] as usize == k + 1, "[C16.delay_for_attempt_number] the policy is asked for the delay of attempt k");
            k += 1;
        }
    }
    if let Some(r) = &out {
        // every outcome before the last was a reconnectable error
        let mut k = 0;
        while k + 1 < calls {
            let o = script.outcomes[k.min(3)];
            assert!(o.is_err(), "[C16.stops_at_first_success] no call after a success");
            if with_pred {
                assert!(reconnectable(o.unwrap_err()), "[C16.retries_only_connection_failures] a retry happens only after an error the predicate classifies as a connection failure");
            }
            k += 1;
        }
        let last = script.outcomes[(calls - 1).min(3)];
        match r {
            Ok(v) => {
                assert!(last == Ok(*v), "[C16.returns_first_success] the first success is returned");
                assert!(shared.state() == ConnectionState::Connected, "[C16.connected_after_success] the published state is Connected after a success");
            }
            Err(ReconnectError::ServiceError(e)) => {
                assert!(last == Err(e.0) && with_pred && !reconnectable(e.0), "[C16.other_errors_pass] an error that is not a connection failure is returned at once, unchanged");
            }
            Err(ReconnectError::MaxAttemptsExceeded { attempts, .. }) => {
                assert!(max_attempts.is_some() && *attempts == max_attempts.unwrap() + 1 && calls == *attempts as usize && last.is_err(),
                    "[C16.exhausted_after_max] MaxAttemptsExceeded only after max_attempts + 1 failed calls");
            }
            Err(ReconnectError::ConnectionFailed(e)) => {
                assert!(policy_kind == 0 && last == Err(e.0), "[C16.no_policy_no_retry] without a policy the connection failure is returned, wrapping the last error");
            }
            Err(ReconnectError::ConnectionFailedNoRetry(e)) => {
                assert!(!retry_on_reconnect && last == Err(e.0) && calls == 1, "[C16.no_retry_variant] with retry_on_reconnect off the error wraps the inner error after one call");
            }
        }
    }
    kani::cover!(out.is_some() && mon().calls >= 1, "request resolved");
    std::mem::forget(fut);
    std::mem::forget(s);
}

/// While the retried call is still running after a reconnectable failure, and at
/// every instant before the policy's delay has elapsed, the layer does not claim
/// to be connected and issues no call.
#[kani::proof]
#[kani::unwind(6)]
#[kani::stub(std::time::Instant::now, tokio::model::std_instant_now)]
#[kani::stub(ReconnectPolicy::delay_for_attempt, scripted_delay)]
fn not_connected_while_failing() {
    gh().delays = [any_millis(10_000), any_millis(10_000), any_millis(10_000), any_millis(10_000)];
    let cfg = mk_cfg(2, false, true, None, Duration::ZERO);
    let shared = ReconnectState::new();
    let mut script = svc::any_script();
    script.never = false;
    script.immediate = true;
    script.never_mask = 0b10; // the retried call (number 1) stays in flight
    script.outcomes[0] = Err(kani::any());
    let mut s = ReconnectService::new(Inner::new(script), Arc::new(cfg), shared.clone());
    let _ = svc::poll_ready_once(&mut s);
    let mut fut = Box::pin(s.call(kani::any()));
    let d = gh().delays[1];
    kani::assume(d > Duration::ZERO); // (zero delays: covered by the one_request harnesses)
    let p = svc::poll_once(fut.as_mut());
    assert!(p.is_pending() && mon().calls == 1 && st().sleeps_created == 1 && st().last_sleep_duration == d, "[C16.waits_policy_delay] a connection failure is followed by the policy's delay");
    assert!(shared.state() != ConnectionState::Connected, "[C16.not_connected_while_failing] not Connected while backing off");
    {
        let early = any_millis(10_000);
        kani::assume(early < d);
        model::advance(early);
        let p = svc::poll_once(fut.as_mut());
        assert!(p.is_pending() && mon().calls == 1, "[C16.waits_policy_delay] no retry before the delay has elapsed");
        model::advance(d - early);
    }
    let p = svc::poll_once(fut.as_mut());
    assert!(p.is_pending() && mon().calls == 2 && mon().live == 1, "[C16.retries_after_delay] the retry is issued once the delay has elapsed");
    assert!(shared.state() != ConnectionState::Connected, "[C16.not_connected_while_failing] not Connected while the retried call has not produced a result");
    std::mem::forget(fut);
    std::mem::forget(s);
}

/// The predicate is consulted for EVERY error, not only the first: a connection failure
/// followed by an error that is not a connection failure ends the request with that error.
#[kani::proof]
#[kani::unwind(8)]
#[kani::stub(std::time::Instant::now, tokio::model::std_instant_now)]
#[kani::stub(ReconnectPolicy::delay_for_attempt, scripted_delay)]
fn predicate_checked_for_every_error() {
    gh().delays = [Duration::ZERO; 4];
    let cfg = mk_cfg(2, true, true, None, Duration::ZERO);
    let shared = ReconnectState::new();
    let mut script = svc::any_script();
    script.never = false;
    script.immediate = true;
    let (e0, e1): (u32, u32) = (kani::any(), kani::any());
    kani::assume(reconnectable(e0) && !reconnectable(e1));
    script.outcomes[0] = Err(e0);
    script.outcomes[1] = Err(e1);
    let mut s = ReconnectService::new(Inner::new(script), Arc::new(cfg), shared.clone());
    let _ = svc::poll_ready_once(&mut s);
    let mut fut = Box::pin(s.call(kani::any()));
    let p = svc::poll_once(fut.as_mut());
    assert!(mon().calls == 2, "[C16.retries_only_connection_failures] one retry after the connection failure, none after the other error");
    assert!(matches!(p, Poll::Ready(Err(ReconnectError::ServiceError(InnerErr(x)))) if x == e1), "[C16.other_errors_pass] an error that is not a connection failure is returned at once, unchanged");
    assert!(gh().pred_calls == 2, "[C16.predicate_every_error] the predicate classifies every inner error");
    std::mem::forget(fut);
    std::mem::forget(s);
}

/// The attempt budget belongs to the request: another request succeeding on a clone of the
/// layer (shared published state) between two attempts does not give this request more attempts.
#[kani::proof]
#[kani::unwind(8)]
#[kani::stub(std::time::Instant::now, tokio::model::std_instant_now)]
#[kani::stub(ReconnectPolicy::delay_for_attempt, scripted_delay)]
fn attempt_budget_is_per_request() {
    let d = any_millis(10_000);
    kani::assume(d > Duration::ZERO);
    gh().delays = [d; 4];
    let cfg = mk_cfg(2, false, true, Some(1), Duration::ZERO);
    let shared = ReconnectState::new();
    // whatever EARLIER requests of this layer left in the shared, published attempt counter
    // (requests that ended in an error never reset it) is not this request's business
    if kani::any() {
        shared.increment_attempts();
    }
    if kani::any() {
        shared.increment_attempts();
    }
    let mut script = svc::any_script();
    script.never = false;
    script.immediate = true;
    script.outcomes = [Err(kani::any()), Err(kani::any()), Err(kani::any()), Err(kani::any())];
    let mut s = ReconnectService::new(Inner::new(script), Arc::new(cfg), shared.clone());
    let _ = svc::poll_ready_once(&mut s);
    let mut fut = Box::pin(s.call(kani::any()));
    assert!(svc::poll_once(fut.as_mut()).is_pending() && mon().calls == 1, "[C16.waits_policy_delay] a connection failure is followed by the policy's delay (the attempt budget is per request: leftovers of earlier requests do not shorten it)");
    shared.mark_connected(); // another request on a clone succeeds meanwhile
    model::advance(d);
    let p = svc::poll_once(fut.as_mut());
    assert!(mon().calls == 2, "[C16.bounded_attempts] at most max_attempts + 1 calls for one request");
    assert!(matches!(p, Poll::Ready(Err(ReconnectError::MaxAttemptsExceeded { attempts: 2, .. }))), "[C16.exhausted_after_max] MaxAttemptsExceeded after max_attempts + 1 failed calls, whatever other requests did");
    std::mem::forget(fut);
    std::mem::forget(s);
}

/// KNOWN FINDING witness (C20 readiness): the retried call goes to a clone that never
/// observed readiness.
#[kani::proof]
#[kani::unwind(6)]
#[kani::stub(std::time::Instant::now, tokio::model::std_instant_now)]
#[kani::stub(ReconnectPolicy::delay_for_attempt, scripted_delay)]
fn c20_reconnect_retry_unready() {
    gh().delays = [Duration::ZERO; 4];
    let cfg = mk_cfg(2, false, true, None, Duration::ZERO);
    let shared = ReconnectState::new();
    let mut script = svc::any_script();
    script.never = false;
    script.immediate = true;
    script.outcomes[0] = Err(kani::any());
    script.outcomes[1] = Ok(kani::any());
    let mut s = ReconnectService::new(Inner::new(script), Arc::new(cfg), shared.clone());
    let _ = svc::poll_ready_once(&mut s);
    let mut fut = Box::pin(s.call(kani::any()));
    let p = svc::poll_once(fut.as_mut());
    assert!(p.is_ready() && mon().calls == 2, "[C16.retries_after_delay] a zero delay retries at once");
    assert!(mon().unready_mask & 1 == 0, "[C20.reconnect_first_attempt_ready] the first attempt goes to the instance on which readiness was observed");
    assert!(mon().unready_mask & 2 == 0, "[C20.reconnect_retry_unready] the retried call goes to an instance on which readiness was observed");
    std::mem::forget(fut);
    std::mem::forget(s);
}

macro_rules! proofs { ($($name:ident = ($k:expr, $p:expr, $r:expr)),*) => {$(
    #[kani::proof]
    #[kani::unwind(11)]
    #[kani::stub(std::time::Instant::now, tokio::model::std_instant_now)]
    #[kani::stub(ReconnectPolicy::delay_for_attempt, scripted_delay)]
    fn $name() { one_request($k, $p, $r) }
)*}}
proofs!(custom_policy_predicate_retry = (2, true, true), custom_policy_no_predicate = (2, false, true), fixed_policy_no_retry = (1, true, false), no_policy = (0, true, true));

/// Configuration reaches the service: the attempt limit (0 = "never retry" included,
/// unlimited when asked for, last writer wins), retry_on_reconnect and the presence of a
/// predicate set through the public builder are the ones in the built config.
#[kani::proof]
#[kani::unwind(4)]
fn builder_is_faithful() {
    let n: u32 = kani::any();
    let order: u8 = kani::any();
    kani::assume(order < 4);
    let retry: bool = kani::any();
    let with_pred: bool = kani::any();
    let mut b = ReconnectConfig::builder().retry_on_reconnect(retry);
    let expect = match order {
        0 => {
            b = b.max_attempts(n);
            Some(n)
        }
        1 => {
            b = b.unlimited_attempts().max_attempts(n);
            Some(n)
        }
        2 => {
            b = b.max_attempts(n).unlimited_attempts();
            None
        }
        _ => None, // default: unlimited
    };
    if with_pred {
        b = b.reconnect_predicate(|_e: &dyn std::error::Error| true);
    }
    let cfg = b.build();
    assert!(cfg.max_attempts == expect, "[C16.config_max_attempts_used] the configured attempt limit (0 included) is the one the service uses; unlimited only when asked for");
    assert!(cfg.retry_on_reconnect == retry, "[C16.config_retry_flag_used] the configured retry_on_reconnect flag is used");
    assert!(cfg.reconnect_predicate.is_some() == with_pred, "[C16.config_predicate_used] a configured predicate is installed, none otherwise");
    kani::cover!(order == 0 && n == 0, "max_attempts(0) covered");
    std::mem::forget(cfg);
}

/// C20 readiness clause for reconnect: see svc::check_readiness_passthrough.
#[kani::proof]
#[kani::unwind(4)]
fn readiness_passthrough() {
    let cfg = mk_cfg(0, false, true, Some(1), Duration::ZERO);
    let mut s = ReconnectService::new(Inner::new(svc::any_script()), Arc::new(cfg), ReconnectState::new());
    svc::check_readiness_passthrough(&mut s);
    std::mem::forget(s);
}
