//! C16 — reconnect retries only connection failures, a bounded number of
//! times.  One request through the real `ReconnectService::call` /
//! `ReconnectFuture::poll` state machine, with another request on a clone of the
//! same layer succeeding at arbitrary moments (shared published state).
use crate::config::ReconnectConfig;
use crate::policy::ReconnectPolicy;
use crate::service::{ReconnectError, ReconnectService};
use crate::state::{ConnectionState, ReconnectState};
use crate::verif_kani::svc::{self, mon, Inner, InnerErr};
use std::sync::Arc;
use std::task::Poll;
use std::time::Duration;
use tokio::model::{self, st};
use tower::Service;
use tower_resilience_retry::FnInterval;

struct G {
    magic: [u64; 2],
    delays: [Duration; 4],
    asked: [u32; 4],
    asks: u32,
    pred_calls: u32,
}
static mut GH: G = G { magic: [0x5245434f4e4e4543, 0x545f4331365f4748], delays: [Duration::ZERO; 4], asked: [99; 4], asks: 0, pred_calls: 0 };
fn gh() -> &'static mut G {
    unsafe { &mut *core::ptr::addr_of_mut!(GH) }
}
fn reconnectable(e: u32) -> bool {
    e & 1 == 1
}
fn any_millis(max_ms: u64) -> Duration {
    let secs: u64 = kani::any();
    let ms: u32 = kani::any();
    kani::assume(ms < 1000 && secs <= max_ms / 1000 && (secs < max_ms / 1000 || (ms as u64) <= max_ms % 1000));
    Duration::new(secs, ms * 1_000_000)
}

/// policy: 0 = None, 1 = Fixed, 2 = Custom (per-attempt symbolic delays)
fn one_request(policy_kind: u8, with_pred: bool, retry_on_reconnect: bool) {
    let max_attempts: Option<u32> = if kani::any() { None } else { let m: u32 = kani::any(); kani::assume(m <= 1); Some(m) };
    gh().delays = [any_millis(10_000), any_millis(10_000), any_millis(10_000), any_millis(10_000)];
    let fixed = any_millis(10_000);
    let policy = match policy_kind {
        0 => ReconnectPolicy::none(),
        1 => ReconnectPolicy::fixed(fixed),
        _ => ReconnectPolicy::Custom(Arc::new(FnInterval::new(|k: usize| {
            let g = gh();
            if (g.asks as usize) < 4 {
                g.asked[g.asks as usize] = k as u32;
            }
            g.asks += 1;
            g.delays[k.min(3)]
        }))),
    };
    let mut cfg = ReconnectConfig::default();
    cfg.policy = policy;
    cfg.max_attempts = max_attempts;
    cfg.retry_on_reconnect = retry_on_reconnect;
    if with_pred {
        cfg.reconnect_predicate = Some(Arc::new(|e: &dyn std::error::Error| {
            gh().pred_calls += 1;
            // errors are compared through their code (InnerErr is the only error type here)
            let code = unsafe { &*(e as *const dyn std::error::Error as *const InnerErr) }.0;
            reconnectable(code)
        }));
    }
    let shared = ReconnectState::new();
    let mut script = svc::any_script();
    script.never = false;
    script.immediate = kani::any(); // all inner calls complete at once, or each at a poll of the solver's choice
    let mut s = ReconnectService::new(Inner::new(script), Arc::new(cfg), shared.clone());
    let req: u32 = kani::any();
    let _ = svc::poll_ready_once(&mut s);
    let mut fut = Box::pin(s.call(req));
    let mut out = None;
    let mut sleep_started = model::now();
    let mut failing = false; // a reconnectable failure is being handled
    let mut step = 0;
    while step < 4 {
        // another request on a clone of the layer may succeed at any moment
        let other_succeeded: bool = kani::any();
        if other_succeeded {
            shared.mark_connected();
        }
        model::advance(any_millis(15_000));
        let (calls0, sleeps0) = (mon().calls, st().sleeps_created);
        let p = svc::poll_once(fut.as_mut());
        if st().sleeps_created > sleeps0 {
            sleep_started = model::now();
            failing = true;
            assert!(st().sleeps_created == sleeps0 + 1, "[C16.one_sleep_per_failure] one back-off per reconnectable failure");
        }
        if mon().calls > calls0 {
            // a retry was issued in this poll
            let k = (st().sleeps_created as usize).max(1) - 1;
            let d = if policy_kind == 1 { fixed } else { gh().delays[(k + 1).min(3)] };
            assert!(model::now() >= sleep_started + d, "[C16.waits_policy_delay] a retry is issued only after the policy's delay has elapsed");
            assert!(retry_on_reconnect, "[C16.no_retry_when_disabled] no retry when retry_on_reconnect is off");
        }
        if let Poll::Ready(r) = p {
            out = Some(r);
            break;
        }
        if failing && !other_succeeded {
            // between a reconnectable failure and the next resolution the layer must not claim to be connected
            assert!(shared.state() != ConnectionState::Connected,
                "[C16.not_connected_while_failing] the published state is not Connected while a reconnectable failure is being handled");
        }
        step += 1;
    }
    let calls = mon().calls as usize;
    assert!(calls >= 1, "[C16.at_least_once] the wrapped service is called");
    if let Some(m) = max_attempts {
        assert!(calls <= m as usize + 1, "[C16.bounded_attempts] at most max_attempts + 1 calls for one request");
    }
    assert!(mon().last_req == req, "[C16.same_request] every attempt carries the request");
    if policy_kind == 2 {
        let mut k = 0;
        while k < 4 && k < gh().asks as usize {
            assert!(gh().asked[k] as usize == k + 1, "[C16.delay_for_attempt_number] the policy is asked for the delay of attempt k");
            k += 1;
        }
    }
    if let Some(r) = &out {
        // every outcome before the last was a reconnectable error
        let mut k = 0;
        while k + 1 < calls {
            let o = script.outcomes[k.min(3)];
            assert!(o.is_err(), "[C16.stops_at_first_success] no call after a success");
            if with_pred {
                assert!(reconnectable(o.unwrap_err()), "[C16.retries_only_connection_failures] a retry happens only after an error the predicate classifies as a connection failure");
            }
            k += 1;
        }
        let last = script.outcomes[(calls - 1).min(3)];
        match r {
            Ok(v) => {
                assert!(last == Ok(*v), "[C16.returns_first_success] the first success is returned");
                assert!(shared.state() == ConnectionState::Connected, "[C16.connected_after_success] the published state is Connected after a success");
            }
            Err(ReconnectError::ServiceError(e)) => {
                assert!(last == Err(e.0) && with_pred && !reconnectable(e.0), "[C16.other_errors_pass] an error that is not a connection failure is returned at once, unchanged");
            }
            Err(ReconnectError::MaxAttemptsExceeded { attempts, .. }) => {
                assert!(max_attempts.is_some() && *attempts == max_attempts.unwrap() + 1 && calls == *attempts as usize && last.is_err(),
                    "[C16.exhausted_after_max] MaxAttemptsExceeded only after max_attempts + 1 failed calls");
            }
            Err(ReconnectError::ConnectionFailed(e)) => {
                assert!(policy_kind == 0 && last == Err(e.0), "[C16.no_policy_no_retry] without a policy the connection failure is returned, wrapping the last error");
            }
            Err(ReconnectError::ConnectionFailedNoRetry(e)) => {
                assert!(!retry_on_reconnect && last == Err(e.0) && calls == 1, "[C16.no_retry_variant] with retry_on_reconnect off the error wraps the inner error after one call");
            }
        }
    }
    kani::cover!(mon().calls == 2 && matches!(out, Some(Err(ReconnectError::MaxAttemptsExceeded { .. }))), "exhausted after two calls");
    kani::cover!(mon().calls == 2 && matches!(out, Some(Ok(_))), "success on the retry");
    std::mem::forget(fut);
    std::mem::forget(s);
}

macro_rules! proofs { ($($name:ident = ($k:expr, $p:expr, $r:expr)),*) => {$(
    #[kani::proof]
    #[kani::unwind(6)]
    #[kani::stub(std::time::Instant::now, tokio::model::std_instant_now)]
    fn $name() { one_request($k, $p, $r) }
)*}}
proofs!(custom_policy_predicate_retry = (2, true, true), custom_policy_no_predicate = (2, false, true), fixed_policy_no_retry = (1, true, false), no_policy = (0, true, true));
