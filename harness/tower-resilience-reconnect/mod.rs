//! In-crate Kani harnesses for tower-resilience-reconnect.
pub mod c14;
pub mod env;
pub mod svc;
pub mod c16;
