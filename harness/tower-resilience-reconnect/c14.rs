//! C14 — every ReconnectPolicy built on the retry backoff types is total and capped.
use crate::policy::ReconnectPolicy;
use std::sync::Arc;
use std::time::Duration;
use tower_resilience_retry::FnInterval;

fn any_duration(max_secs: u64) -> Duration {
    let secs: u64 = kani::any();
    let nanos: u32 = kani::any();
    kani::assume(secs <= max_secs && nanos < 1_000_000_000);
    Duration::new(secs, nanos)
}
const TEN_DAYS: u64 = 10 * 86_400;
static mut POW: f64 = 1234.5678e-9; // unique initialiser (Kani merges identical constants)
fn fixed_any_powi(_x: f64, _n: i32) -> f64 {
    unsafe { POW }
}

#[kani::proof]
#[kani::stub(f64::powi, fixed_any_powi)]
fn reconnect_exponential() {
    unsafe { POW = kani::any() };
    let initial = any_duration(TEN_DAYS);
    let max = any_duration(u64::MAX);
    let p = ReconnectPolicy::exponential(initial, max);
    let a: usize = kani::any();
    let d = p.delay_for_attempt(a);
    assert!(d.is_some(), "[C14.reconnect_exp_some] exponential policy always yields a delay");
    assert!(d.unwrap() <= max, "[C14.reconnect_exp_capped] reconnect delay never above max_delay");
    kani::cover!(a == usize::MAX, "attempt usize::MAX reachable");
    kani::cover!(max < initial && d.unwrap() == max, "max below initial reachable");
}

#[kani::proof]
#[kani::stub(f64::powi, fixed_any_powi)]
fn reconnect_exponential_random() {
    unsafe { POW = kani::any() };
    let max = any_duration(u64::MAX / 4);
    let p = ReconnectPolicy::exponential_random(Duration::from_millis(100), max, 0.5);
    let a: usize = kani::any();
    let d = p.delay_for_attempt(a);
    assert!(d.is_some(), "[C14.reconnect_rand_some] jittered policy always yields a delay");
    // (an upper bound of (1+factor)*max_delay on the result needs f64 reasoning
    // the SAT back end did not finish in 10 minutes; totality only)
}

#[kani::proof]
fn reconnect_fixed_none_custom() {
    let a: usize = kani::any();
    let dl = any_duration(u64::MAX);
    assert!(ReconnectPolicy::none().delay_for_attempt(a).is_none(), "[C14.reconnect_none] no policy, no delay");
    assert!(ReconnectPolicy::fixed(dl).delay_for_attempt(a) == Some(dl), "[C14.reconnect_fixed] fixed policy is constant");
    let c = ReconnectPolicy::Custom(Arc::new(FnInterval::new(|k: usize| {
        Duration::from_secs((k % 7) as u64)
    })));
    assert!(c.delay_for_attempt(a) == Some(Duration::from_secs((a % 7) as u64)),
        "[C14.reconnect_custom] custom policy receives the attempt number");
    std::mem::forget(c);
}
