//! C06 — the time limiter resolves every call by its deadline.  One call through
//! the real `TimeLimiter::call` future in both cancellation modes; the inner
//! call has a symbolic latency (below / at / above the timeout, or never).
use crate::config::{DynamicTimeout, FixedTimeout, TimeLimiterConfig, TimeoutFn};
use crate::error::TimeLimiterError;
use crate::verif_kani::svc::{self, mon, Inner, InnerErr};
use crate::TimeLimiter;
use std::panic::catch_unwind;
use std::sync::Arc;
use std::task::Poll;
use std::time::Duration;
use tokio::model::{self, st};
use tower::Service;

struct G {
    magic: [u64; 2],
    dyn_timeout: Duration,
    dyn_seen_req: u32,
}
static mut GH: G = G { magic: [0x54494d454c494d49, 0x5445525f4330365f], dyn_timeout: Duration::ZERO, dyn_seen_req: 0 };
fn gh() -> &'static mut G {
    unsafe { &mut *core::ptr::addr_of_mut!(GH) }
}
fn any_millis(max_ms: u64) -> Duration {
    let secs: u64 = kani::any();
    let ms: u32 = kani::any();
    kani::assume(ms < 1000 && secs <= max_ms / 1000 && (secs < max_ms / 1000 || (ms as u64) <= max_ms % 1000));
    Duration::new(secs, ms * 1_000_000)
}

fn drive<T: TimeoutFn<u32> + 'static>(mut tl: TimeLimiter<Inner, T>, script: svc::Script, timeout: Duration, cancel: bool, req: u32) -> bool {
    let latency = script.latency;
    let _ = svc::poll_ready_once(&mut tl);
    let mut fut = tl.call(req);
    assert!(mon().calls == 0, "[C06.lazy] nothing happens before the first poll");
    let t0 = model::now();
    let mut out = None;
    let mut step = 0;
    while step < 2 {
        if step > 0 {
            model::advance(any_millis(90_000));
        }
        if !cancel && kani::any() {
            // the runtime schedules the spawned inner call
            model::poll_task(0);
        }
        let el = model::now() - t0;
        let expired = el >= timeout;
        let inner_done_before_poll = mon().completed == 1;
        let p = svc::poll_once(fut.as_mut());
        let inner_done = mon().completed == 1;
        match p {
            Poll::Pending => {
                assert!(!expired, "[C06.resolved_by_deadline] the call is never pending at or after its deadline");
                if cancel {
                    assert!(!inner_done, "[C06.result_when_available] the call resolves in the poll in which the inner result becomes available");
                } else {
                    assert!(!inner_done_before_poll, "[C06.result_when_available] the call resolves once the background call has delivered its result");
                }
            }
            Poll::Ready(r) => {
                match &r {
                    Err(TimeLimiterError::Timeout) => {
                        assert!(expired, "[C06.timeout_only_at_deadline] the timeout error is produced only at or after the deadline");
                        if cancel {
                            assert!(!inner_done, "[C06.inner_result_wins] an inner result available at this poll is returned, not the timeout");
                            assert!(mon().live == 0 && mon().dropped_unfinished == 1, "[C06.cancel_drops_inner] with cancellation the inner call is dropped at the deadline");
                        } else {
                            assert!(mon().dropped_unfinished == 0, "[C06.no_cancel_keeps_inner] without cancellation the inner call is not dropped at the deadline");
                        }
                    }
                    Ok(v) => assert!(inner_done && script.outcomes[0] == Ok(*v), "[C06.returns_inner_ok] the inner response is returned unchanged"),
                    Err(TimeLimiterError::Inner(InnerErr(e))) => assert!(inner_done && script.outcomes[0] == Err(*e), "[C06.returns_inner_err] the inner error is returned unchanged"),
                }
                out = Some(r);
                break;
            }
        }
        step += 1;
    }
    assert!(mon().calls <= 1 && (mon().calls == 0 || mon().last_req == req), "[C20.timelimiter_forwards_once] the request is forwarded once, unchanged");
    assert!(mon().unready_calls == 0, "[C20.timelimiter_ready_instance] the call goes to the instance on which readiness was observed");
    if cancel {
        if let (Some(l), Some(r)) = (latency, &out) {
            if l < timeout && !script.never {
                // finished strictly before the deadline => its result, whenever the caller is polled
                assert!(!matches!(r, Err(TimeLimiterError::Timeout)), "[C06.finished_before_deadline_gets_result] an inner call that finished before the deadline yields its result");
            }
        }
    } else if matches!(out, Some(Err(TimeLimiterError::Timeout))) {
        // the detached call keeps running to completion in the background
        assert!(st().spawned == 1, "[C06.no_cancel_spawns_once] the inner call runs in one spawned task");
        if !script.never && mon().completed == 0 {
            assert!(model::task_alive(0), "[C06.background_alive] after the timeout the detached inner call is still alive");
            // drive the background task: (start it if it never ran,) let its latency pass, finish it
            model::poll_task(0);
            model::advance(Duration::from_secs(200));
            model::poll_task(0);
            assert!(!model::task_alive(0) && mon().completed == 1 && mon().dropped_unfinished == 0, "[C06.background_completes] the detached inner call runs to completion");
        }
    }
    let timed_out = matches!(out, Some(Err(TimeLimiterError::Timeout)));
    // (no drop glue: the call has resolved or is abandoned; dropping the boxed state machine
    //  and the task table only adds to the formula)
    std::mem::forget(fut);
    timed_out
}

fn any_script_with_latency() -> svc::Script {
    let mut s = svc::any_script();
    s.latency = Some(any_millis(90_000));
    s
}

fn fixed(cancel: bool) {
    let timeout = any_millis(60_000);
    let script = any_script_with_latency();
    let cfg = TimeLimiterConfig { timeout_source: FixedTimeout::new(timeout), cancel_running_future: cancel, event_listeners: tower_resilience_core::EventListeners::new(), name: String::new() };
    let tl = TimeLimiter::new(Inner::new(script), Arc::new(cfg));
    let timed_out = drive(tl, script, timeout, cancel, kani::any());
    kani::cover!(timed_out, "timeout reachable");
}

/// "No limit" timeouts (anything from ~11 days up to Duration::MAX): the deadline
/// arithmetic must not wrap or collapse to "now" -- such a call never times out here.
fn huge(cancel: bool) {
    let secs: u64 = kani::any();
    let nanos: u32 = kani::any();
    kani::assume(secs >= 1_000_000 && nanos < 1_000_000_000);
    let timeout = Duration::new(secs, nanos);
    let script = any_script_with_latency();
    let cfg = TimeLimiterConfig { timeout_source: FixedTimeout::new(timeout), cancel_running_future: cancel, event_listeners: tower_resilience_core::EventListeners::new(), name: String::new() };
    let tl = TimeLimiter::new(Inner::new(script), Arc::new(cfg));
    let timed_out = drive(tl, script, timeout, cancel, kani::any());
    assert!(!timed_out, "[C06.timeout_only_at_deadline] a call with a practically unlimited timeout does not time out");
    kani::cover!(secs == u64::MAX && nanos == 999_999_999, "Duration::MAX covered");
}

fn dynamic(cancel: bool) {
    let timeout = any_millis(60_000);
    gh().dyn_timeout = timeout;
    let script = any_script_with_latency();
    let src = DynamicTimeout::new(|r: &u32| {
        gh().dyn_seen_req = *r;
        gh().dyn_timeout
    });
    let cfg = TimeLimiterConfig { timeout_source: src, cancel_running_future: cancel, event_listeners: tower_resilience_core::EventListeners::new(), name: String::new() };
    let tl = TimeLimiter::new(Inner::new(script), Arc::new(cfg));
    let req: u32 = kani::any();
    let timed_out = drive(tl, script, timeout, cancel, req);
    kani::cover!(timed_out, "timeout reachable");
    assert!(gh().dyn_seen_req == req, "[C06.per_request_timeout] the per-request timeout is computed from this request");
}

macro_rules! proofs { ($($name:ident = $body:expr),*) => {$(
    #[kani::proof]
    #[kani::unwind(4)]
    #[kani::stub(std::time::Instant::now, tokio::model::std_instant_now)]
    #[kani::stub(catch_unwind, crate::verif_kani::env::catch_unwind_stub)]
    fn $name() { $body }
)*}}
proofs!(cancel_fixed_timeout = fixed(true), cancel_per_request_timeout = dynamic(true), no_cancel_fixed_timeout = fixed(false),
    cancel_huge_timeout = huge(true), no_cancel_huge_timeout = huge(false));


/// Configuration reaches the service: the built layer uses the configured timeout and
/// cancellation mode (default: cancel).
#[kani::proof]
#[kani::unwind(4)]
#[kani::stub(std::time::Instant::now, tokio::model::std_instant_now)]
fn builder_is_faithful() {
    use tower::Layer;
    let t = any_millis(1_000_000);
    let set_cancel: bool = kani::any();
    let cancel: bool = kani::any();
    let mut b = crate::TimeLimiterLayer::builder().timeout_duration(t);
    if set_cancel {
        b = b.cancel_running_future(cancel);
    }
    let layer = b.build();
    let tl = layer.layer(Inner::new(svc::any_script()));
    let req: u32 = kani::any();
    assert!(tl.config.timeout_source.get_timeout(&req) == t, "[C06.config_timeout_used] the configured timeout is the one applied to calls");
    if set_cancel {
        assert!(tl.config.cancel_running_future == cancel, "[C06.config_cancel_mode_used] the configured cancellation mode is used");
    }
    std::mem::forget(tl);
    std::mem::forget(layer);
}

/// Same through the type-changing `timeout_fn` step of the builder, in both orders.
#[kani::proof]
#[kani::unwind(4)]
#[kani::stub(std::time::Instant::now, tokio::model::std_instant_now)]
fn builder_timeout_fn_is_faithful() {
    use tower::Layer;
    let t = any_millis(1_000_000);
    gh().dyn_timeout = t;
    let cancel: bool = kani::any();
    let f = |r: &u32| {
        gh().dyn_seen_req = *r;
        gh().dyn_timeout
    };
    let layer = if kani::any() {
        crate::TimeLimiterLayer::builder().cancel_running_future(cancel).timeout_fn(f).build()
    } else {
        crate::TimeLimiterLayer::builder().timeout_fn(f).cancel_running_future(cancel).build()
    };
    let tl = layer.layer(Inner::new(svc::any_script()));
    let req: u32 = kani::any();
    assert!(tl.config.timeout_source.get_timeout(&req) == t && gh().dyn_seen_req == req, "[C06.config_timeout_used] the per-request timeout function is the one applied to calls");
    assert!(tl.config.cancel_running_future == cancel, "[C06.config_cancel_mode_used] the configured cancellation mode survives the timeout_fn step");
    std::mem::forget(tl);
    std::mem::forget(layer);
}

/// C20 readiness clause for the time limiter (both modes): see svc::check_readiness_passthrough.
#[kani::proof]
#[kani::unwind(4)]
#[kani::stub(std::time::Instant::now, tokio::model::std_instant_now)]
fn readiness_passthrough() {
    let cfg = TimeLimiterConfig { timeout_source: FixedTimeout::new(any_millis(60_000)), cancel_running_future: kani::any(), event_listeners: tower_resilience_core::EventListeners::new(), name: String::new() };
    let mut tl = TimeLimiter::new(Inner::new(svc::any_script()), Arc::new(cfg));
    svc::check_readiness_passthrough(&mut tl);
    std::mem::forget(tl);
}
