//! In-crate Kani harnesses for tower-resilience-timelimiter.
pub mod env;
pub mod svc;
pub mod c06;
