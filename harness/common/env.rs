//! Shared harness environment: virtual clock, stubs for the two std entry
//! points Kani cannot execute (`Instant::now` -> FFI clock_gettime,
//! `catch_unwind` -> unsupported intrinsic).  Copied into every in-crate
//! `verif_kani` module.
#![allow(dead_code)]
use std::any::Any;
use std::time::{Duration, Instant};

/// All mutable harness state lives in one struct with a unique initialiser
/// (Kani 0.68 merges constant allocations with identical bytes).
pub struct Env {
    pub magic: [u64; 2],
    /// virtual time since the epoch of the virtual clock
    pub now: Duration,
    pub now_calls: u64,
}
pub static mut ENV: Env = Env {
    magic: [0x454e565f434c4f43, 0x4b5f4d4147494321],
    now: Duration::new(1_000, 0),
    now_calls: 0,
};

/// Replacement for `std::time::Instant::now`.  An all-zero `Instant` is a
/// valid value on this target (Timespec { tv_sec: 0, tv_nsec: 0 }).
pub fn now_stub() -> Instant {
    unsafe {
        ENV.now_calls += 1;
        core::mem::zeroed::<Instant>() + ENV.now
    }
}
pub fn instant_at(t: Duration) -> Instant {
    unsafe { core::mem::zeroed::<Instant>() + t }
}
pub fn now() -> Duration {
    unsafe { ENV.now }
}
pub fn set_now(t: Duration) {
    unsafe { ENV.now = t }
}
pub fn advance(d: Duration) {
    unsafe { ENV.now += d }
}

/// Replacement for `std::panic::catch_unwind`: Kani has no unwinding
/// (panics abort the path and are reported as failed checks).
pub fn catch_unwind_stub<F: FnOnce() -> R + std::panic::UnwindSafe, R>(f: F) -> Result<R, Box<dyn Any + Send + 'static>> {
    Ok(f())
}

/// Any Duration up to `max_secs` seconds, built without 64-bit division.
pub fn any_duration(max_secs: u64) -> Duration {
    let secs: u64 = kani::any();
    let nanos: u32 = kani::any();
    kani::assume(secs <= max_secs && nanos < 1_000_000_000);
    Duration::new(secs, nanos)
}
/// Any Duration in whole milliseconds up to `max_ms`.
pub fn any_millis(max_ms: u64) -> Duration {
    // whole milliseconds, built without division (symbolic 64-bit div/rem stalls the bit-blaster)
    let secs: u64 = kani::any();
    let ms: u32 = kani::any();
    kani::assume(ms < 1000 && secs <= max_ms / 1000 && (secs < max_ms / 1000 || (ms as u64) <= max_ms % 1000));
    Duration::new(secs, ms * 1_000_000)
}
