//! Shared service-level harness pieces: a monitored inner `tower::Service`, a
//! one-step executor and the stubs wiring `std::time::Instant::now` to the
//! tokio model's virtual clock.  Copied into every in-crate `verif_kani` module.
#![allow(dead_code)]
use std::future::Future;
use std::pin::Pin;
use std::task::{Context, Poll, Waker};

/// Poll a future once with a no-op waker (the model never relies on wake-ups:
/// the harness decides who is polled next).
pub fn poll_once<F: Future + ?Sized>(f: Pin<&mut F>) -> Poll<F::Output> {
    let mut cx = Context::from_waker(Waker::noop());
    f.poll(&mut cx)
}

pub fn poll_ready_once<S: tower::Service<u32>>(s: &mut S) -> Poll<Result<(), S::Error>> {
    let mut cx = Context::from_waker(Waker::noop());
    s.poll_ready(&mut cx)
}

/// Ghost monitor of the inner service (single static, unique initialiser).
pub struct Mon {
    pub magic: [u64; 2],
    /// number of `call()`s on the inner service
    pub calls: u32,
    /// request value of the last call
    pub last_req: u32,
    /// inner futures currently alive (created by call(), not yet completed or dropped)
    pub live: u32,
    pub max_live: u32,
    pub completed: u32,
    /// bit k set: call number k has completed
    pub completed_mask: u8,
    pub dropped_unfinished: u32,
    pub polls: u32,
    /// calls that hit an instance on which readiness had not been observed
    pub unready_calls: u32,
    /// bit k set: call number k hit an instance that had not observed readiness
    pub unready_mask: u8,
    pub ready_polls: u32,
    pub clones: u32,
    /// tokio-model permits held when the inner call was entered / minimum seen while live
    pub permits_at_entry: u32,
    pub min_permits_while_live: u32,
    /// virtual time of the calls
    pub call_times: [core::time::Duration; 4],
    /// listener events seen
    pub events: u32,
    /// the script of the inner service (kept here, not inside `Inner`, so that the service
    /// value captured by the layers' call futures stays a few bytes: CBMC's cost of re-polling
    /// a boxed future grows with the size of its state)
    pub script: Script,
    /// completion instant of call k (deterministic-latency scripts)
    pub ready_at: [Option<core::time::Duration>; 4],
}
pub static mut MON: Mon = Mon {
    magic: [0x494e4e45525f4d4f, 0x4e49544f525f5356],
    calls: 0, last_req: 0, live: 0, max_live: 0, completed: 0, completed_mask: 0, dropped_unfinished: 0, polls: 0,
    unready_calls: 0, unready_mask: 0, ready_polls: 0, clones: 0, permits_at_entry: 0, min_permits_while_live: 99,
    call_times: [core::time::Duration::ZERO; 4], events: 0,
    script: Script { outcomes: [Ok(0x5c21_9701); 4], never: false, latency: None, lats: [core::time::Duration::ZERO; 4], use_lats: false, never_mask: 0, immediate: false, ready: 0 },
    ready_at: [None; 4],
};
pub fn mon() -> &'static mut Mon {
    unsafe { &mut *core::ptr::addr_of_mut!(MON) }
}

#[derive(Debug, Clone, Copy, PartialEq, Eq)]
pub struct InnerErr(pub u32);
impl std::fmt::Display for InnerErr {
    fn fmt(&self, _f: &mut std::fmt::Formatter<'_>) -> std::fmt::Result {
        Ok(())
    }
}
impl std::error::Error for InnerErr {}

/// What the next inner call(s) will do; chosen by the harness (symbolic).
#[derive(Clone, Copy)]
pub struct Script {
    /// outcome per call index: Ok(v) or Err(e)
    pub outcomes: [Result<u32, u32>; 4],
    /// the inner future never completes
    pub never: bool,
    /// Some(l): the inner future completes at the first poll at or after call time + l
    /// (deterministic latency); None: see `immediate`
    pub latency: Option<core::time::Duration>,
    /// per-call latencies, used when `use_lats` (call k completes at the first poll at or
    /// after its call time + lats[k])
    pub lats: [core::time::Duration; 4],
    pub use_lats: bool,
    /// bit k set: the future of call number k never completes
    pub never_mask: u8,
    /// the inner future completes at its first poll (otherwise: at a poll of the solver's choice)
    pub immediate: bool,
    /// readiness answers: 0 = Ready(Ok), 1 = Pending, 2 = Ready(Err)
    pub ready: u8,
}

/// Monitored inner service.  `Clone` yields an instance that has NOT observed
/// readiness (as tower::Buffer / ConcurrencyLimit behave).
pub struct Inner {
    pub ready_seen: bool,
}
impl Inner {
    pub fn new(script: Script) -> Self {
        mon().script = script;
        Inner { ready_seen: false }
    }
}
impl Clone for Inner {
    fn clone(&self) -> Self {
        mon().clones += 1;
        Inner { ready_seen: false }
    }
}
/// The inner call's future: two bytes; everything else about call `idx` lives in `Mon`.
pub struct InnerFut {
    idx: u8,
    done: bool,
}
impl Future for InnerFut {
    type Output = Result<u32, InnerErr>;
    fn poll(self: Pin<&mut Self>, _cx: &mut Context<'_>) -> Poll<Self::Output> {
        let me = unsafe { self.get_unchecked_mut() };
        let m = mon();
        m.polls += 1;
        let held = tokio::model::st().permits_held;
        if held < m.min_permits_while_live {
            m.min_permits_while_live = held;
        }
        let i = me.idx as usize;
        let sc = &m.script;
        let never = sc.never || (sc.never_mask >> i) & 1 == 1;
        if let Some(t) = m.ready_at[i] {
            if never || tokio::model::now() < t {
                return Poll::Pending;
            }
        } else if never || (!sc.immediate && tokio::model::choose()) {
            return Poll::Pending;
        }
        me.done = true;
        m.live -= 1;
        m.completed += 1;
        m.completed_mask |= 1 << me.idx;
        Poll::Ready(m.script.outcomes[i].map_err(InnerErr))
    }
}
impl Drop for InnerFut {
    fn drop(&mut self) {
        if !self.done {
            let m = mon();
            m.live -= 1;
            m.dropped_unfinished += 1;
        }
    }
}
impl tower::Service<u32> for Inner {
    type Response = u32;
    type Error = InnerErr;
    type Future = InnerFut;
    fn poll_ready(&mut self, _cx: &mut Context<'_>) -> Poll<Result<(), InnerErr>> {
        mon().ready_polls += 1;
        match mon().script.ready {
            0 => {
                self.ready_seen = true;
                Poll::Ready(Ok(()))
            }
            1 => Poll::Pending,
            _ => Poll::Ready(Err(InnerErr(777))),
        }
    }
    fn call(&mut self, req: u32) -> InnerFut {
        let m = mon();
        let script = m.script;
        let idx = if (m.calls as usize) < 4 { m.calls as usize } else { 3 };
        if idx < 4 {
            m.call_times[idx] = tokio::model::now();
        }
        m.calls += 1;
        m.last_req = req;
        m.live += 1;
        if m.live > m.max_live {
            m.max_live = m.live;
        }
        if !self.ready_seen {
            m.unready_calls += 1;
            m.unready_mask |= 1 << idx;
        }
        self.ready_seen = false;
        m.permits_at_entry = tokio::model::st().permits_held;
        let held = m.permits_at_entry;
        if held < m.min_permits_while_live {
            m.min_permits_while_live = held;
        }
        m.ready_at[idx] = if script.use_lats { Some(tokio::model::now() + script.lats[idx]) } else { script.latency.map(|l| tokio::model::now() + l) };
        InnerFut { idx: idx as u8, done: false }
    }
}

pub fn any_outcome() -> Result<u32, u32> {
    let v: u32 = kani::any();
    if kani::any() { Ok(v) } else { Err(v) }
}
pub fn any_script() -> Script {
    Script { outcomes: [any_outcome(), any_outcome(), any_outcome(), any_outcome()], never: kani::any(), latency: None, lats: [core::time::Duration::ZERO; 4], use_lats: false, never_mask: 0, immediate: false, ready: 0 }
}

/// C20, readiness clause: a layer's `poll_ready` is the wrapped service's: it asks the inner
/// service (once), is pending while the inner service is pending, and surfaces the inner
/// service's readiness error as a readiness error; nothing is forwarded meanwhile.
pub fn check_readiness_passthrough<S: tower::Service<u32>>(s: &mut S) {
    let r: u8 = kani::any();
    kani::assume(r == 1 || r == 2);
    mon().script.ready = r;
    let before = mon().ready_polls;
    let rdy = poll_ready_once(s);
    assert!(mon().ready_polls == before + 1, "[C20.readiness_asks_inner] readiness is decided by asking the wrapped service");
    if r == 1 {
        assert!(rdy.is_pending(), "[C20.pending_readiness_passthrough] while the wrapped service is not ready the layer is not ready");
    } else {
        assert!(matches!(rdy, Poll::Ready(Err(_))), "[C20.readiness_error_passthrough] a readiness error of the wrapped service surfaces as a readiness error");
    }
    assert!(mon().calls == 0, "[C20.readiness_forwards_nothing] polling readiness forwards no request");
}
