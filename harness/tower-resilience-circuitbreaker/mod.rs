//! In-crate Kani harnesses for tower-resilience-circuitbreaker.
pub mod env;
pub mod svc;
pub mod c04b;
