//! C04 (configuration part) — what the public builder is given is what the
//! breaker uses: every threshold / window / wait value arrives unchanged in the
//! configuration of the built service (in particular a minimum_number_of_calls
//! ABOVE the window size is not silently lowered), and the default minimum is
//! the window size.
use crate::config::SlidingWindowType;
use crate::layer::CircuitBreakerLayer;
use crate::verif_kani::svc::{self, Inner};
use std::time::Duration;
use tower::Layer;

fn any_millis(max_ms: u64) -> Duration {
    let secs: u64 = kani::any();
    let ms: u32 = kani::any();
    kani::assume(ms < 1000 && secs <= max_ms / 1000 && (secs < max_ms / 1000 || (ms as u64) <= max_ms % 1000));
    Duration::new(secs, ms * 1_000_000)
}

#[kani::proof]
#[kani::unwind(4)]
#[kani::stub(std::time::Instant::now, tokio::model::std_instant_now)]
fn builder_is_faithful() {
    let window: usize = kani::any();
    let min_calls: usize = kani::any();
    let permitted: usize = kani::any();
    let fr: f64 = kani::any();
    let sr: f64 = kani::any();
    kani::assume(fr >= 0.0 && fr <= 1.0 && sr >= 0.0 && sr <= 1.0);
    let wait = any_millis(1_000_000);
    let slow = any_millis(1_000_000);
    let set_min: bool = kani::any();
    let time_based: bool = kani::any();
    let wdur = any_millis(1_000_000);
    let mut b = CircuitBreakerLayer::builder()
        .failure_rate_threshold(fr)
        .sliding_window_size(window)
        .wait_duration_in_open(wait)
        .permitted_calls_in_half_open(permitted)
        .slow_call_duration_threshold(slow)
        .slow_call_rate_threshold(sr);
    if set_min {
        b = b.minimum_number_of_calls(min_calls);
    }
    if time_based {
        b = b.sliding_window_type(SlidingWindowType::TimeBased).sliding_window_duration(wdur);
    }
    let layer = b.build();
    let cb = layer.layer(Inner::new(svc::any_script()));
    let c = &cb.config;
    assert!(c.failure_rate_threshold == fr && c.slow_call_rate_threshold == sr, "[C04.config_thresholds] configured thresholds are used unchanged");
    assert!(c.sliding_window_size == window && c.permitted_calls_in_half_open == permitted, "[C04.config_sizes] configured window size and permitted half-open calls are used unchanged");
    assert!(c.wait_duration_in_open == wait && c.slow_call_duration_threshold == Some(slow), "[C04.config_durations] configured durations are used unchanged");
    if set_min {
        assert!(c.minimum_number_of_calls == min_calls, "[C04.config_minimum_calls] the configured minimum_number_of_calls is used unchanged (also above the window size)");
    } else {
        assert!(c.minimum_number_of_calls == window, "[C04.config_minimum_default] the default minimum_number_of_calls is the window size");
    }
    if time_based {
        assert!(c.sliding_window_type == SlidingWindowType::TimeBased && c.sliding_window_duration == Some(wdur), "[C04.config_window_type] configured window type and duration are used unchanged");
    } else {
        assert!(c.sliding_window_type == SlidingWindowType::CountBased, "[C04.config_window_type] count-based is the default window type");
    }
    kani::cover!(set_min && min_calls > window, "minimum above the window");
    std::mem::forget(cb);
    std::mem::forget(layer);
}

/// The same through the type-changing `failure_classifier` step: every setting made BEFORE
/// the step survives it, every setting made AFTER it is applied, and the default minimum
/// follows the FINAL window size in both orders.
#[kani::proof]
#[kani::unwind(4)]
#[kani::stub(std::time::Instant::now, tokio::model::std_instant_now)]
fn builder_classifier_step_is_faithful() {
    use crate::verif_kani::svc::InnerErr;
    let window: usize = kani::any();
    let min_calls: usize = kani::any();
    let permitted: usize = kani::any();
    let fr: f64 = kani::any();
    let sr: f64 = kani::any();
    kani::assume(fr >= 0.0 && fr <= 1.0 && sr >= 0.0 && sr <= 1.0);
    let wait = any_millis(1_000_000);
    let slow = any_millis(1_000_000);
    let set_min: bool = kani::any();
    let classifier_first: bool = kani::any();
    let f = |r: &Result<u32, InnerErr>| r.is_err();
    macro_rules! settings {
        ($b:expr) => {{
            let mut b = $b
                .failure_rate_threshold(fr)
                .sliding_window_size(window)
                .wait_duration_in_open(wait)
                .permitted_calls_in_half_open(permitted)
                .slow_call_duration_threshold(slow)
                .slow_call_rate_threshold(sr);
            if set_min {
                b = b.minimum_number_of_calls(min_calls);
            }
            b
        }};
    }
    let layer = if classifier_first {
        settings!(CircuitBreakerLayer::builder().failure_classifier(f)).build()
    } else {
        settings!(CircuitBreakerLayer::builder()).failure_classifier(f).build()
    };
    let cb = layer.layer(Inner::new(svc::any_script()));
    let c = &cb.config;
    assert!(c.failure_rate_threshold == fr && c.slow_call_rate_threshold == sr, "[C04.config_thresholds] configured thresholds are used unchanged");
    assert!(c.sliding_window_size == window && c.permitted_calls_in_half_open == permitted, "[C04.config_sizes] configured window size and permitted half-open calls are used unchanged");
    assert!(c.wait_duration_in_open == wait && c.slow_call_duration_threshold == Some(slow), "[C04.config_durations] configured durations are used unchanged");
    if set_min {
        assert!(c.minimum_number_of_calls == min_calls, "[C04.config_minimum_calls] the configured minimum_number_of_calls is used unchanged (also above the window size)");
    } else {
        assert!(c.minimum_number_of_calls == window, "[C04.config_minimum_default] the default minimum_number_of_calls is the FINAL window size, whatever the order of the builder calls");
    }
    std::mem::forget(cb);
    std::mem::forget(layer);
}
