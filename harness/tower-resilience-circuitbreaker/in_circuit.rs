//! C03 / C04 / C09 — kernel harnesses over the real `Circuit` state machine
//! (child module of `circuit`: private fields reachable, so pre-states can be
//! arbitrary).  Every operation of the service layer on the shared breaker
//! happens under its mutex, so *sequences of Circuit operations are the
//! interleavings* of any number of callers.
use super::*;
use crate::verif_kani::env::{self, any_duration, any_millis};
use std::panic::catch_unwind;
use std::sync::Arc;

type Cfg = CircuitBreakerConfig<()>;

fn any_unit_f64() -> f64 {
    let f: f64 = kani::any();
    kani::assume(f >= 0.0 && f <= 1.0);
    f
}

/// Any valid configuration: window 1..=3, minimum calls 1..=4 (below / equal /
/// above the window), thresholds anywhere in [0,1], permitted 1..=3, slow-call
/// detection on/off, any wait duration up to 100 s, any window duration.
fn any_cfg(count_based: bool) -> Cfg {
    let window: usize = kani::any();
    let min_calls: usize = kani::any();
    let permitted: usize = kani::any();
    kani::assume(window >= 1 && window <= 3);
    kani::assume(min_calls >= 1 && min_calls <= 4);
    kani::assume(permitted >= 1 && permitted <= 3);
    let slow_on: bool = kani::any();
    CircuitBreakerConfig {
        failure_rate_threshold: any_unit_f64(),
        sliding_window_type: if count_based { SlidingWindowType::CountBased } else { SlidingWindowType::TimeBased },
        sliding_window_size: window,
        sliding_window_duration: if count_based { None } else { Some(any_millis(100_000)) },
        wait_duration_in_open: any_millis(100_000),
        permitted_calls_in_half_open: permitted,
        minimum_number_of_calls: min_calls,
        failure_classifier: (),
        slow_call_duration_threshold: if slow_on { Some(any_millis(10_000)) } else { None },
        slow_call_rate_threshold: any_unit_f64(),
        event_listeners: tower_resilience_core::EventListeners::new(),
        name: String::new(),
    }
}

fn any_state() -> CircuitState {
    let k: u8 = kani::any();
    kani::assume(k < 3);
    CircuitState::from_u8(k)
}

/// An arbitrary Circuit satisfying the representation invariant, in state `st`,
/// whose last transition happened at an arbitrary instant <= now.
/// (counters = aggregates of count_window; count_window.len() <= window;
/// half_open_successes < permitted while half-open; time records sorted, <= now)
fn any_circuit(cfg: &Cfg, st: CircuitState, n: usize) -> Circuit {
    let mut c = Circuit::new_with_atomic(Arc::new(AtomicU8::new(st as u8)));
    c.state = st;
    let since = any_millis(200_000);
    kani::assume(since <= env::now());
    c.last_state_change = env::instant_at(since);
    if cfg.sliding_window_type == SlidingWindowType::CountBased {
        // `n` (number of calls in the pre-window) is a CONCRETE harness parameter: with a
        // symbolic length the VecDeque index arithmetic exhausts the solver's memory
        kani::assume(n <= cfg.sliding_window_size);
        let mut i = 0;
        while i < n {
            let f: bool = kani::any();
            let s: bool = kani::any() && cfg.slow_call_duration_threshold.is_some();
            c.count_window.push_back((f, s));
            c.total_count += 1;
            if f { c.failure_count += 1 } else { c.success_count += 1 }
            if s { c.slow_call_count += 1 }
            i += 1;
        }
    } else {
        let mut t = since;
        let mut i = 0;
        while i < n {
            let dt = any_millis(100_000);
            t = t + dt;
            kani::assume(t <= env::now());
            c.call_records.push_back(CallRecord { timestamp: env::instant_at(t), is_failure: kani::any(), is_slow: kani::any() });
            i += 1;
        }
    }
    if st == CircuitState::HalfOpen {
        let h: usize = kani::any();
        kani::assume(h < cfg.permitted_calls_in_half_open);
        c.half_open_successes = h;
    }
    c
}

fn mirror_ok(c: &Circuit) -> bool {
    CircuitState::from_u8(c.state_atomic.load(Ordering::Acquire)) == c.state
}

fn init_clock() {
    env::set_now(any_millis(200_000));
}

// ---------------------------------------------------------------------------
// C03: an open breaker admits nothing until wait_duration_in_open has elapsed
// ---------------------------------------------------------------------------
fn c03_open_rejects(count_based: bool, n: usize) {
    init_clock();
    let cfg = any_cfg(count_based);
    let mut c = any_circuit(&cfg, CircuitState::Open, n);
    let since = c.last_state_change;
    let elapsed = env::instant_at(env::now()).duration_since(since);
    let r = c.try_acquire(&cfg);
    if elapsed < cfg.wait_duration_in_open {
        assert!(!r, "[C03.open_rejects] open breaker rejects every call before wait_duration_in_open has elapsed");
        assert!(c.state() == CircuitState::Open && mirror_ok(&c), "[C03.open_stays_open] a rejected call leaves the breaker open");
        assert!(c.last_state_change == since, "[C03.open_timer_untouched] a rejected call does not restart or shorten the wait");
    } else {
        assert!(r && c.state() == CircuitState::HalfOpen && mirror_ok(&c),
            "[C04.open_to_half_open] the first call after the wait is admitted and moves the breaker to half-open");
    }
    kani::cover!(!r, "rejection reachable");
    kani::cover!(r, "admission after wait reachable");
    kani::cover!(elapsed == cfg.wait_duration_in_open, "exactly on the boundary");
    std::mem::forget(c);
    std::mem::forget(cfg);
}

/// Late results of calls admitted before the breaker opened must neither close
/// it nor touch its timer.
fn c03_late_results(count_based: bool, n: usize) {
    init_clock();
    let cfg = any_cfg(count_based);
    let mut c = any_circuit(&cfg, CircuitState::Open, n);
    let since = c.last_state_change;
    let d = any_millis(20_000);
    if kani::any() {
        c.record_success(&cfg, d);
    } else {
        c.record_failure(&cfg, d);
    }
    assert!(c.state() == CircuitState::Open && mirror_ok(&c), "[C03.late_result_keeps_open] outcomes recorded while open do not close the breaker");
    assert!(c.last_state_change == since, "[C03.late_result_keeps_timer] outcomes recorded while open do not move the open timer");
    std::mem::forget(c);
    std::mem::forget(cfg);
}

// ---------------------------------------------------------------------------
// C04 (one inductive step from an ARBITRARY state): every transition sets state,
// lock-free mirror, timer and counters together; the documented transitions and
// only those happen.
// ---------------------------------------------------------------------------
fn window_stats(c: &Circuit, cfg: &Cfg) -> (usize, usize, usize) {
    // (total, failures, slow) of the calls inside the window right now
    if cfg.sliding_window_type == SlidingWindowType::CountBased {
        (c.total_count, c.failure_count, c.slow_call_count)
    } else {
        let (t, f, _s, sl) = c.time_based_stats();
        (t, f, sl)
    }
}

fn c04_step(count_based: bool, n: usize) {
    init_clock();
    let cfg = any_cfg(count_based);
    let st = any_state();
    let mut c = any_circuit(&cfg, st, n);
    let since = c.last_state_change;
    let pre_half = c.half_open_successes;
    let (pre_total, pre_fail, pre_slow) = window_stats(&c, &cfg);
    let pre_front_evicted = count_based && pre_total == cfg.sliding_window_size;
    let front = c.count_window.front().copied();
    let op: u8 = kani::any();
    kani::assume(op < 6);
    let d = any_millis(20_000);
    let slow = cfg.slow_call_duration_threshold.map(|t| d >= t).unwrap_or(false);
    let mut admitted = false;
    match op {
        0 => c.record_success(&cfg, d),
        1 => c.record_failure(&cfg, d),
        2 => admitted = c.try_acquire(&cfg),
        3 => c.force_open(&cfg),
        4 => c.force_closed(&cfg),
        _ => c.reset(&cfg),
    }
    let post = c.state();
    assert!(mirror_ok(&c), "[C04.mirror_agrees] the lock-free state view equals the state");
    if post != st {
        assert!(c.last_state_change == env::instant_at(env::now()), "[C04.transition_stamps_now] a transition restarts the state timer at the current instant");
        assert!(c.total_count == 0 && c.failure_count == 0 && c.success_count == 0 && c.slow_call_count == 0
            && c.count_window.is_empty() && c.call_records.is_empty() && c.half_open_successes == 0,
            "[C04.transition_clears_window] a transition clears the window");
    } else if op <= 2 {
        assert!(c.last_state_change == since, "[C04.no_transition_keeps_timer] without a transition the timer is untouched");
    }
    // which transitions are allowed for which operation
    match op {
        0 | 1 => {
            let failure = op == 1;
            match st {
                CircuitState::Closed => {
                    let (t, f, s) = window_stats(&c, &cfg);
                    if post == CircuitState::Closed {
                        // the call was recorded; decide from the post-window that it must not have tripped
                        let full = !count_based || t >= cfg.sliding_window_size;
                        let enough = t >= cfg.minimum_number_of_calls;
                        let fr = f as f64 / t as f64;
                        let sr = s as f64 / t as f64;
                        let trip = fr >= cfg.failure_rate_threshold
                            || (cfg.slow_call_duration_threshold.is_some() && sr >= cfg.slow_call_rate_threshold);
                        assert!(t >= 1, "[C04.record_counts] a recorded outcome is in the window");
                        assert!(!(full && enough && trip), "[C04.trips_when_due] closed -> open as soon as the rate reaches its threshold with enough calls");
                        if count_based {
                            assert!(t <= cfg.sliding_window_size, "[C04.window_bounded] the count-based window holds at most sliding_window_size calls");
                            assert!(t == (pre_total + 1).min(cfg.sliding_window_size), "[C04.window_slides] the window holds the last N calls");
                            let df = if failure { 1 } else { 0 };
                            assert!(f + 1 >= pre_fail + df && f <= pre_fail + df, "[C04.window_failure_count] failures in window = previous - evicted + new");
                            // exact aggregates: previous - evicted oldest call + this call
                            let (ev_f, ev_s) = match (pre_front_evicted, front) {
                                (true, Some((ff, ss))) => (ff as usize, ss as usize),
                                _ => (0, 0),
                            };
                            assert!(f == pre_fail + df - ev_f, "[C04.window_failure_count] failures in window = previous - evicted + new");
                            assert!(s == pre_slow + (slow as usize) - ev_s, "[C04.window_slow_count] slow calls in window = previous - evicted + new");
                            assert!(c.success_count == t - f, "[C04.window_success_count] successes in window = total - failures");
                        }
                    } else {
                        assert!(post == CircuitState::Open, "[C04.closed_only_to_open] recording an outcome while closed can only open the breaker");
                        // it tripped: the decision must be justified by the window including this call
                        let t = if count_based { (pre_total + 1).min(cfg.sliding_window_size) } else { 0 };
                        if count_based {
                            assert!(t >= cfg.minimum_number_of_calls && t >= cfg.sliding_window_size,
                                "[C04.no_early_trip] no trip before minimum_number_of_calls and a full window");
                        }
                    }
                }
                CircuitState::Open => assert!(post == CircuitState::Open, "[C03.late_result_keeps_open] outcomes recorded while open do not close the breaker"),
                CircuitState::HalfOpen => {
                    if failure {
                        assert!(post == CircuitState::Open, "[C04.half_open_failure_reopens] any failure while half-open re-opens the breaker");
                    } else if pre_half + 1 >= cfg.permitted_calls_in_half_open {
                        assert!(post == CircuitState::Closed, "[C04.half_open_closes] permitted_calls_in_half_open successes close the breaker");
                    } else {
                        assert!(post == CircuitState::HalfOpen && c.half_open_successes == pre_half + 1,
                            "[C04.half_open_counts] fewer successes keep it half-open");
                    }
                }
            }
        }
        2 => match st {
            CircuitState::Closed => assert!(admitted && post == CircuitState::Closed, "[C04.closed_admits] closed admits"),
            CircuitState::HalfOpen => {
                assert!(post == CircuitState::HalfOpen, "[C04.half_open_acquire_keeps_state] admission checks do not leave half-open");
                assert!(admitted == (pre_half < cfg.permitted_calls_in_half_open), "[C09.half_open_admits_iff_permits_left] half-open admits iff fewer than permitted trial calls have completed");
            }
            CircuitState::Open => assert!(post == CircuitState::Open || post == CircuitState::HalfOpen, "[C04.open_only_to_half_open] open -> half-open only"),
        },
        3 => assert!(post == CircuitState::Open, "[C04.force_open] force_open opens"),
        4 => assert!(post == CircuitState::Closed, "[C04.force_closed] force_closed closes"),
        _ => {
            assert!(post == CircuitState::Closed, "[C04.reset_closes] reset closes");
            assert!(c.total_count == 0 && c.failure_count == 0 && c.success_count == 0 && c.slow_call_count == 0
                && c.count_window.is_empty() && c.call_records.is_empty(),
                "[C04.reset_clears] reset leaves an empty window");
        }
    }
    std::mem::forget(c);
    std::mem::forget(cfg);
}

/// metrics() agrees with the state and the window contents.
fn c04_metrics(count_based: bool, n: usize) {
    init_clock();
    let cfg = any_cfg(count_based);
    let st = any_state();
    let c = any_circuit(&cfg, st, n);
    let m = c.metrics(&cfg);
    let (t, f, s) = window_stats(&c, &cfg);
    assert!(m.state == st, "[C04.metrics_state] the metrics snapshot reports the state");
    assert!(m.total_calls == t && m.failure_count == f && m.slow_call_count == s && m.success_count == t - f,
        "[C04.metrics_counts] the metrics snapshot reports the window");
    if t > 0 {
        assert!(m.failure_rate == f as f64 / t as f64 && m.slow_call_rate == s as f64 / t as f64, "[C04.metrics_rates] rates are counts over total");
    } else {
        assert!(m.failure_rate == 0.0 && m.slow_call_rate == 0.0, "[C04.metrics_rates_empty] empty window has zero rates");
    }
    assert!(m.time_since_state_change == env::instant_at(env::now()).duration_since(c.last_state_change),
        "[C04.metrics_time] time since the last transition");
    std::mem::forget(c);
    std::mem::forget(cfg);
}

// ---------------------------------------------------------------------------
// C09: half-open admits at most permitted_calls_in_half_open trial calls
// ---------------------------------------------------------------------------
// Non-overlapping trial calls are decided inductively by the c04_step family:
// from an arbitrary half-open state with h < permitted completed (= admitted)
// trial calls, try_acquire admits iff h < permitted
// ([C09.half_open_admits_iff_permits_left]), a success makes h+1 and closes at
// h+1 == permitted ([C04.half_open_closes]), a failure re-opens
// ([C04.half_open_failure_reopens]); hence per half-open period at most
// `permitted` calls are admitted when each records before the next arrives.
// (A multi-step harness over the same VecDeque state exhausted 16 GB.)

/// KNOWN FINDING witness: trial calls that overlap.  `h` trial calls have
/// succeeded, `j >= 1` admitted trial calls are still in flight and together
/// they use up all permits; one more caller must be rejected.  The pinned code
/// counts only COMPLETED trial calls, so it admits the caller.
fn c09_overlapping(count_based: bool) {
    init_clock();
    let cfg = any_cfg(count_based);
    let mut c = any_circuit(&cfg, CircuitState::HalfOpen, 0);
    let h = c.half_open_successes;
    let in_flight: usize = kani::any();
    kani::assume(in_flight >= 1 && in_flight <= 3 && h + in_flight == cfg.permitted_calls_in_half_open);
    let r = c.try_acquire(&cfg);
    assert!(!r, "[C09.half_open_concurrent_overadmission] with all permits taken by in-flight trial calls a further caller is rejected");
    std::mem::forget(c);
    std::mem::forget(cfg);
}

// ---- proof entry points: (window type) x (concrete number of calls already in the window)
#[kani::proof]
#[kani::unwind(6)]
#[kani::stub(std::time::Instant::now, env::now_stub)]
#[kani::stub(catch_unwind, env::catch_unwind_stub)]
fn c03_open_rejects_count_n0() { c03_open_rejects(true, 0) }
#[kani::proof]
#[kani::unwind(6)]
#[kani::stub(std::time::Instant::now, env::now_stub)]
#[kani::stub(catch_unwind, env::catch_unwind_stub)]
fn c03_open_rejects_count_n1() { c03_open_rejects(true, 1) }
#[kani::proof]
#[kani::unwind(6)]
#[kani::stub(std::time::Instant::now, env::now_stub)]
#[kani::stub(catch_unwind, env::catch_unwind_stub)]
fn c03_open_rejects_count_n2() { c03_open_rejects(true, 2) }
#[kani::proof]
#[kani::unwind(6)]
#[kani::stub(std::time::Instant::now, env::now_stub)]
#[kani::stub(catch_unwind, env::catch_unwind_stub)]
fn c03_open_rejects_count_n3() { c03_open_rejects(true, 3) }
#[kani::proof]
#[kani::unwind(6)]
#[kani::stub(std::time::Instant::now, env::now_stub)]
#[kani::stub(catch_unwind, env::catch_unwind_stub)]
fn c03_open_rejects_time_n0() { c03_open_rejects(false, 0) }
#[kani::proof]
#[kani::unwind(6)]
#[kani::stub(std::time::Instant::now, env::now_stub)]
#[kani::stub(catch_unwind, env::catch_unwind_stub)]
fn c03_open_rejects_time_n1() { c03_open_rejects(false, 1) }
#[kani::proof]
#[kani::unwind(6)]
#[kani::stub(std::time::Instant::now, env::now_stub)]
#[kani::stub(catch_unwind, env::catch_unwind_stub)]
fn c03_open_rejects_time_n2() { c03_open_rejects(false, 2) }
#[kani::proof]
#[kani::unwind(6)]
#[kani::stub(std::time::Instant::now, env::now_stub)]
#[kani::stub(catch_unwind, env::catch_unwind_stub)]
fn c03_late_results_count_n0() { c03_late_results(true, 0) }
#[kani::proof]
#[kani::unwind(6)]
#[kani::stub(std::time::Instant::now, env::now_stub)]
#[kani::stub(catch_unwind, env::catch_unwind_stub)]
fn c03_late_results_count_n1() { c03_late_results(true, 1) }
#[kani::proof]
#[kani::unwind(6)]
#[kani::stub(std::time::Instant::now, env::now_stub)]
#[kani::stub(catch_unwind, env::catch_unwind_stub)]
fn c03_late_results_count_n2() { c03_late_results(true, 2) }
#[kani::proof]
#[kani::unwind(6)]
#[kani::stub(std::time::Instant::now, env::now_stub)]
#[kani::stub(catch_unwind, env::catch_unwind_stub)]
fn c03_late_results_count_n3() { c03_late_results(true, 3) }
#[kani::proof]
#[kani::unwind(6)]
#[kani::stub(std::time::Instant::now, env::now_stub)]
#[kani::stub(catch_unwind, env::catch_unwind_stub)]
fn c03_late_results_time_n0() { c03_late_results(false, 0) }
#[kani::proof]
#[kani::unwind(6)]
#[kani::stub(std::time::Instant::now, env::now_stub)]
#[kani::stub(catch_unwind, env::catch_unwind_stub)]
fn c03_late_results_time_n1() { c03_late_results(false, 1) }
#[kani::proof]
#[kani::unwind(6)]
#[kani::stub(std::time::Instant::now, env::now_stub)]
#[kani::stub(catch_unwind, env::catch_unwind_stub)]
fn c03_late_results_time_n2() { c03_late_results(false, 2) }
#[kani::proof]
#[kani::unwind(6)]
#[kani::stub(std::time::Instant::now, env::now_stub)]
#[kani::stub(catch_unwind, env::catch_unwind_stub)]
fn c04_step_count_n0() { c04_step(true, 0) }
#[kani::proof]
#[kani::unwind(6)]
#[kani::stub(std::time::Instant::now, env::now_stub)]
#[kani::stub(catch_unwind, env::catch_unwind_stub)]
fn c04_step_count_n1() { c04_step(true, 1) }
#[kani::proof]
#[kani::unwind(6)]
#[kani::stub(std::time::Instant::now, env::now_stub)]
#[kani::stub(catch_unwind, env::catch_unwind_stub)]
fn c04_step_count_n2() { c04_step(true, 2) }
#[kani::proof]
#[kani::unwind(6)]
#[kani::stub(std::time::Instant::now, env::now_stub)]
#[kani::stub(catch_unwind, env::catch_unwind_stub)]
fn c04_step_count_n3() { c04_step(true, 3) }
#[kani::proof]
#[kani::unwind(6)]
#[kani::stub(std::time::Instant::now, env::now_stub)]
#[kani::stub(catch_unwind, env::catch_unwind_stub)]
fn c04_step_time_n0() { c04_step(false, 0) }
#[kani::proof]
#[kani::unwind(6)]
#[kani::stub(std::time::Instant::now, env::now_stub)]
#[kani::stub(catch_unwind, env::catch_unwind_stub)]
fn c04_step_time_n1() { c04_step(false, 1) }
#[kani::proof]
#[kani::unwind(6)]
#[kani::stub(std::time::Instant::now, env::now_stub)]
#[kani::stub(catch_unwind, env::catch_unwind_stub)]
fn c04_step_time_n2() { c04_step(false, 2) }
#[kani::proof]
#[kani::unwind(6)]
#[kani::stub(std::time::Instant::now, env::now_stub)]
#[kani::stub(catch_unwind, env::catch_unwind_stub)]
fn c04_metrics_count_n0() { c04_metrics(true, 0) }
#[kani::proof]
#[kani::unwind(6)]
#[kani::stub(std::time::Instant::now, env::now_stub)]
#[kani::stub(catch_unwind, env::catch_unwind_stub)]
fn c04_metrics_count_n1() { c04_metrics(true, 1) }
#[kani::proof]
#[kani::unwind(6)]
#[kani::stub(std::time::Instant::now, env::now_stub)]
#[kani::stub(catch_unwind, env::catch_unwind_stub)]
fn c04_metrics_count_n2() { c04_metrics(true, 2) }
#[kani::proof]
#[kani::unwind(6)]
#[kani::stub(std::time::Instant::now, env::now_stub)]
#[kani::stub(catch_unwind, env::catch_unwind_stub)]
fn c04_metrics_count_n3() { c04_metrics(true, 3) }
#[kani::proof]
#[kani::unwind(6)]
#[kani::stub(std::time::Instant::now, env::now_stub)]
#[kani::stub(catch_unwind, env::catch_unwind_stub)]
fn c04_metrics_time_n0() { c04_metrics(false, 0) }
#[kani::proof]
#[kani::unwind(6)]
#[kani::stub(std::time::Instant::now, env::now_stub)]
#[kani::stub(catch_unwind, env::catch_unwind_stub)]
fn c04_metrics_time_n1() { c04_metrics(false, 1) }
#[kani::proof]
#[kani::unwind(6)]
#[kani::stub(std::time::Instant::now, env::now_stub)]
#[kani::stub(catch_unwind, env::catch_unwind_stub)]
fn c04_metrics_time_n2() { c04_metrics(false, 2) }
#[kani::proof]
#[kani::unwind(6)]
#[kani::stub(std::time::Instant::now, env::now_stub)]
#[kani::stub(catch_unwind, env::catch_unwind_stub)]
fn c09_overlapping_count() { c09_overlapping(true) }
#[kani::proof]
#[kani::unwind(6)]
#[kani::stub(std::time::Instant::now, env::now_stub)]
#[kani::stub(catch_unwind, env::catch_unwind_stub)]
fn c09_overlapping_time() { c09_overlapping(false) }

// ---------------------------------------------------------------------------
// C03 / C20 — service-level wiring of CircuitBreaker::call and
// CircuitBreakerWithFallback::call.  The Circuit operations are SCRIPTED here
// (their behaviour is decided by the kernel harnesses above): try_acquire
// answers whatever the harness chose; record_* only count.  What is decided is
// the wiring for EVERY answer: a rejected call resolves at once with
// OpenCircuit / the fallback's result and never touches the inner service; an
// admitted call is forwarded exactly once, unchanged, to the instance that was
// polled ready, its outcome is recorded exactly once and classified correctly,
// and its result comes back unchanged.
// ---------------------------------------------------------------------------
struct Wire {
    magic: [u64; 2],
    permit: bool,
    acquires: u32,
    successes: u32,
    failures: u32,
    fallbacks: u32,
    fallback_req: u32,
    last_duration: Duration,
}
static mut WIRE: Wire = Wire { magic: [0x43425f574952455f, 0x4330335f43323021], permit: true, acquires: 0, successes: 0, failures: 0, fallbacks: 0, fallback_req: 0, last_duration: Duration::ZERO };
fn wire() -> &'static mut Wire {
    unsafe { &mut *core::ptr::addr_of_mut!(WIRE) }
}
fn scripted_try_acquire<C>(_c: &mut Circuit, _cfg: &CircuitBreakerConfig<C>) -> bool {
    wire().acquires += 1;
    wire().permit
}
fn scripted_record_success<C>(_c: &mut Circuit, _cfg: &CircuitBreakerConfig<C>, d: Duration) {
    wire().successes += 1;
    wire().last_duration = d;
}
fn scripted_record_failure<C>(_c: &mut Circuit, _cfg: &CircuitBreakerConfig<C>, d: Duration) {
    wire().failures += 1;
    wire().last_duration = d;
}

use crate::classifier::{DefaultClassifier, FailureClassifier};
/// Custom classifier (C04 "custom failure classifier"): errors with an even code are NOT
/// failures, the success value 0xBAD IS one.
struct OddClassifier;
fn odd_is_failure(r: &Result<u32, u32>) -> bool {
    match r {
        Ok(v) => *v == 0xBAD,
        Err(e) => *e & 1 == 1,
    }
}
impl FailureClassifier<u32, InnerErr> for OddClassifier {
    fn classify(&self, r: &Result<u32, InnerErr>) -> bool {
        match r {
            Ok(v) => odd_is_failure(&Ok(*v)),
            Err(e) => odd_is_failure(&Err(e.0)),
        }
    }
}
use crate::verif_kani::svc::{self as svcm, mon, Inner, InnerErr};
use crate::{CircuitBreaker, CircuitBreakerError};
use std::task::Poll;
use tower::Service;

fn wiring_cfg<C>(c: C) -> CircuitBreakerConfig<C> {
    CircuitBreakerConfig {
        failure_rate_threshold: 0.5,
        sliding_window_type: SlidingWindowType::CountBased,
        sliding_window_size: 2,
        sliding_window_duration: None,
        wait_duration_in_open: Duration::from_secs(1),
        permitted_calls_in_half_open: 1,
        minimum_number_of_calls: 2,
        failure_classifier: c,
        slow_call_duration_threshold: None,
        slow_call_rate_threshold: 1.0,
        event_listeners: tower_resilience_core::EventListeners::new(),
        name: String::new(),
    }
}

/// Clones of a breaker are views of ONE breaker: same circuit, same lock-free state cell.
#[kani::proof]
#[kani::unwind(4)]
#[kani::stub(std::time::Instant::now, tokio::model::std_instant_now)]
fn clones_share_one_breaker() {
    let cb = CircuitBreaker::new(Inner::new(svcm::any_script()), Arc::new(wiring_cfg(DefaultClassifier)));
    let c2 = cb.clone();
    assert!(Arc::ptr_eq(&cb.circuit, &c2.circuit), "[C04.clones_share_circuit] clones share the circuit (state machine and window)");
    assert!(Arc::ptr_eq(&cb.state_atomic, &c2.state_atomic), "[C04.clones_share_state_view] clones share the lock-free state view, so every handle reports every transition");
    let st = any_state();
    cb.state_atomic.store(st as u8, std::sync::atomic::Ordering::Release);
    assert!(c2.state_sync() == st && c2.is_open() == (st == CircuitState::Open), "[C04.clones_share_state_view] a transition published through one handle is seen through the other");
    let f = cb.with_fallback(|r: u32| Box::pin(async move { Ok::<u32, InnerErr>(r) }) as futures::future::BoxFuture<'static, Result<u32, InnerErr>>);
    let f2 = f.clone();
    assert!(Arc::ptr_eq(&f.circuit, &f2.circuit) && Arc::ptr_eq(&f.state_atomic, &f2.state_atomic) && Arc::ptr_eq(&f.state_atomic, &c2.state_atomic),
        "[C04.clones_share_state_view] the fallback variant and its clones share the same breaker");
    std::mem::forget(f);
    std::mem::forget(f2);
    std::mem::forget(c2);
}

/// C20 readiness clause for the breaker (with and without fallback), whatever state it
/// publishes: see svc::check_readiness_passthrough.
#[kani::proof]
#[kani::unwind(4)]
#[kani::stub(std::time::Instant::now, tokio::model::std_instant_now)]
fn readiness_passthrough() {
    let cb = CircuitBreaker::new(Inner::new(svcm::any_script()), Arc::new(wiring_cfg(DefaultClassifier)));
    cb.state_atomic.store(any_state() as u8, std::sync::atomic::Ordering::Release);
    if kani::any() {
        let mut cb = cb;
        svcm::check_readiness_passthrough(&mut cb);
        std::mem::forget(cb);
    } else {
        let mut f = cb.with_fallback(|r: u32| Box::pin(async move { Ok::<u32, InnerErr>(r) }) as futures::future::BoxFuture<'static, Result<u32, InnerErr>>);
        svcm::check_readiness_passthrough(&mut f);
        std::mem::forget(f);
    }
}

fn cb_wiring(with_fallback: bool) {
    tokio::model::st().mutex_avail = tokio::model::Avail::Any; // the breaker lock may be held by other callers
    wire().permit = kani::any();
    let mut script = svcm::any_script();
    script.never = false;
    script.immediate = true;
    let cb = CircuitBreaker::new(Inner::new(script), Arc::new(wiring_cfg(DefaultClassifier)));
    // the published state is whatever earlier calls left there (e.g. still Open when the wait has
    // elapsed and this call is the half-open trial): readiness handling must not depend on it
    let published = if kani::any() { CircuitState::Open } else if kani::any() { CircuitState::HalfOpen } else { CircuitState::Closed };
    cb.state_atomic.store(published as u8, std::sync::atomic::Ordering::Release);
    let req: u32 = kani::any();
    let mut out = None;
    if with_fallback {
        let mut f = cb.with_fallback(|r: u32| {
            wire().fallbacks += 1;
            wire().fallback_req = r;
            Box::pin(async move { if r & 1 == 0 { Ok::<u32, InnerErr>(r ^ 0x7777) } else { Err(InnerErr(r ^ 0x1111)) } }) as futures::future::BoxFuture<'static, Result<u32, InnerErr>>
        });
        let _ = svcm::poll_ready_once(&mut f);
        let mut fut = f.call(req);
        tokio::model::advance(any_millis(100_000)); // the response future is polled late
        let mut k = 0;
        while k < 4 && out.is_none() {
            if let Poll::Ready(r) = svcm::poll_once(fut.as_mut()) {
                out = Some(r);
            }
            k += 1;
        }
        std::mem::forget(fut);
        std::mem::forget(f);
    } else {
        let mut cb = cb;
        let _ = svcm::poll_ready_once(&mut cb);
        let mut fut = cb.call(req);
        tokio::model::advance(any_millis(100_000)); // the response future is polled late
        let mut k = 0;
        while k < 4 && out.is_none() {
            if let Poll::Ready(r) = svcm::poll_once(fut.as_mut()) {
                out = Some(r);
            }
            k += 1;
        }
        std::mem::forget(fut);
        std::mem::forget(cb);
    }
    let w = wire();
    assert!(w.acquires <= 1, "[C03.one_admission_check] admission is decided once per call");
    if w.acquires == 1 && !w.permit {
        assert!(mon().calls == 0, "[C03.rejected_never_touches_inner] a call rejected by the breaker never reaches the wrapped service");
        assert!(w.successes == 0 && w.failures == 0, "[C03.rejected_not_recorded] a rejected call records no outcome");
    }
    if let Some(r) = &out {
        if !w.permit {
            if with_fallback {
                assert!(w.fallbacks == 1 && w.fallback_req == req, "[C03.fallback_runs] a rejected call is answered by the configured fallback, with the request");
                match r {
                    Ok(v) => assert!(req & 1 == 0 && *v == req ^ 0x7777, "[C03.fallback_result] the fallback's response is returned"),
                    Err(CircuitBreakerError::Inner(InnerErr(e))) => assert!(req & 1 == 1 && *e == req ^ 0x1111, "[C03.fallback_result] the fallback's error is returned"),
                    Err(CircuitBreakerError::OpenCircuit) => assert!(false, "[C03.fallback_result] with a fallback the open-circuit error is not surfaced"),
                }
            } else {
                assert!(matches!(r, Err(CircuitBreakerError::OpenCircuit)), "[C03.open_circuit_error] a rejected call is answered with the open-circuit error");
            }
        } else {
            assert!(mon().calls == 1 && mon().last_req == req, "[C20.circuitbreaker_forwards_once] an admitted call is forwarded exactly once, unchanged");
            assert!(mon().unready_calls == 0, "[C20.circuitbreaker_ready_instance] the call goes to the instance on which readiness was observed");
            assert!(w.fallbacks == 0, "[C03.fallback_only_when_rejected] the fallback runs only for rejected calls");
            assert!(w.last_duration == Duration::ZERO, "[C04.call_duration_is_the_inner_calls] the duration recorded for slow-call detection is the inner call's own (here: zero), not the time the response future waited to be polled");
            match (r, script.outcomes[0]) {
                (Ok(v), Ok(x)) => assert!(*v == x && w.successes == 1 && w.failures == 0, "[C20.circuitbreaker_ok_unchanged] response unchanged, one success recorded"),
                (Err(CircuitBreakerError::Inner(InnerErr(e))), Err(x)) => assert!(*e == x && w.failures == 1 && w.successes == 0, "[C20.circuitbreaker_err_unchanged] error unchanged in the Inner variant, one failure recorded"),
                _ => assert!(false, "[C20.circuitbreaker_result_unchanged] the inner result is returned unchanged"),
            }
        }
    } else {
        // still pending after 4 polls: only possible while waiting for the breaker lock
        assert!(mon().live == 0, "[C03.pending_only_for_lock] with an immediate inner call the breaker call is pending only while it waits for the lock");
    }
    kani::cover!(out.is_some() && !wire().permit, "rejected call resolved");
    kani::cover!(matches!(out, Some(Ok(_))) && wire().permit, "admitted call succeeded");
}

#[kani::proof]
#[kani::unwind(6)]
#[kani::stub(std::time::Instant::now, tokio::model::std_instant_now)]
#[kani::stub(catch_unwind, env::catch_unwind_stub)]
#[kani::stub(Circuit::try_acquire, scripted_try_acquire)]
#[kani::stub(Circuit::record_success, scripted_record_success)]
#[kani::stub(Circuit::record_failure, scripted_record_failure)]
fn c03_call_wiring() { cb_wiring(false) }

#[kani::proof]
#[kani::unwind(6)]
#[kani::stub(std::time::Instant::now, tokio::model::std_instant_now)]
#[kani::stub(catch_unwind, env::catch_unwind_stub)]
#[kani::stub(Circuit::try_acquire, scripted_try_acquire)]
#[kani::stub(Circuit::record_success, scripted_record_success)]
#[kani::stub(Circuit::record_failure, scripted_record_failure)]
fn c03_call_wiring_with_fallback() { cb_wiring(true) }

/// Same wiring with a custom failure classifier: the admitted call's outcome is recorded
/// exactly once, as a failure iff the classifier says so (also for `Err` results it does
/// not count and `Ok` results it does).
#[kani::proof]
#[kani::unwind(6)]
#[kani::stub(std::time::Instant::now, tokio::model::std_instant_now)]
#[kani::stub(catch_unwind, env::catch_unwind_stub)]
#[kani::stub(Circuit::try_acquire, scripted_try_acquire)]
#[kani::stub(Circuit::record_success, scripted_record_success)]
#[kani::stub(Circuit::record_failure, scripted_record_failure)]
fn c04_custom_classifier_recording() {
    wire().permit = true;
    let mut script = svcm::any_script();
    script.never = false;
    script.immediate = true;
    let mut cb = CircuitBreaker::new(Inner::new(script), Arc::new(wiring_cfg(OddClassifier)));
    let _ = svcm::poll_ready_once(&mut cb);
    let mut fut = cb.call(kani::any());
    let p = svcm::poll_once(fut.as_mut());
    assert!(p.is_ready() && mon().calls == 1, "[C20.circuitbreaker_forwards_once] an admitted call is forwarded exactly once, unchanged");
    let w = wire();
    assert!(w.successes + w.failures == 1, "[C04.outcome_recorded_once] every admitted call records exactly one outcome");
    assert!((w.failures == 1) == odd_is_failure(&script.outcomes[0]), "[C04.custom_classifier_decides] the configured failure classifier decides whether the outcome is a failure");
    std::mem::forget(fut);
    std::mem::forget(cb);
}
