//! C14 — backoff delays are total, monotone and capped.
//!
//! `f64::powi` is the one operation here whose compiled form (`__powidf2`
//! from compiler-rt) CBMC does not see: its own `__builtin_powi` is an
//! approximation (probe: 2.0.powi(k) != 2^k).  Two sound replacements:
//!  * totality / cap harnesses stub powi with an ARBITRARY f64 (NaN, inf,
//!    negative included): the claim then holds whatever powi returns;
//!  * exact-value / monotonicity harnesses stub it with a line-by-line
//!    transcription of compiler-rt's `__powidf2` (square-and-multiply),
//!    which is what the real build executes, bit for bit.
use crate::backoff::*;
use crate::policy::RetryPolicy;
use std::sync::Arc;
use std::time::Duration;

/// Any Duration with whole seconds <= max_secs (built without the 64-bit
/// division of Duration::from_nanos, which stalls the bit-blaster).
fn any_duration(max_secs: u64) -> Duration {
    let secs: u64 = kani::any();
    let nanos: u32 = kani::any();
    kani::assume(secs <= max_secs && nanos < 1_000_000_000);
    Duration::new(secs, nanos)
}
const TEN_DAYS: u64 = 10 * 86_400;

// unique initialisers: see the note in models/rand (Kani merges identical constant allocations)
static mut POW: f64 = 1234.5678e-9;
fn fixed_any_powi(_x: f64, _n: i32) -> f64 {
    unsafe { POW }
}
/// compiler-rt lib/builtins/powidf2.c
fn powidf2(mut a: f64, mut b: i32) -> f64 {
    let recip = b < 0;
    let mut r: f64 = 1.0;
    loop {
        if b & 1 != 0 {
            r *= a;
        }
        b /= 2;
        if b == 0 {
            break;
        }
        a *= a;
    }
    if recip { 1.0 / r } else { r }
}

fn mk_exp(m: f64) -> (ExponentialBackoff, Option<Duration>) {
    let mut b = ExponentialBackoff::new(any_duration(TEN_DAYS)).multiplier(m);
    let has_max: bool = kani::any();
    let mut mx = None;
    if has_max {
        let m = any_duration(u64::MAX);
        mx = Some(m);
        b = b.max_interval(m);
    }
    (b, mx)
}

#[kani::proof]
fn fixed_total() {
    let d = any_duration(u64::MAX);
    let f = FixedInterval::new(d);
    let a: usize = kani::any();
    let b: usize = kani::any();
    assert!(f.next_interval(a) == d, "[C14.fixed_constant] fixed interval is the configured duration");
    assert!(f.next_interval(a) == f.next_interval(b), "[C14.fixed_monotone] fixed interval does not depend on the attempt");
    kani::cover!(a == usize::MAX, "attempt = usize::MAX reachable");
}

/// Totality and cap for every attempt in 0..=usize::MAX, every initial
/// interval up to ten days, every multiplier, max_interval absent or any:
/// whatever powi returns.
#[kani::proof]
#[kani::stub(f64::powi, fixed_any_powi)]
fn exp_total_cap_anypow() {
    unsafe { POW = kani::any() };
    let m: f64 = kani::any();
    kani::assume(m >= 1.0 && m <= 10.0);
    let (b, mx) = mk_exp(m);
    let a: usize = kani::any();
    let d = b.next_interval(a); // any panic / overflow inside is a failed check
    if let Some(mx) = mx {
        assert!(d <= mx, "[C14.exp_capped] delay never above max_interval");
    }
    kani::cover!(a > (i32::MAX as usize), "attempt beyond i32::MAX reachable");
    kani::cover!(d == Duration::MAX, "saturated delay reachable");
}

/// Overflow saturates UP, never down: once initial * multiplier^attempt is not
/// representable (here: powi returns anything >= 1e30, initial >= 1 ms) the delay is
/// max_interval (or Duration::MAX without a cap) - a retry loop never falls back to
/// back-to-back retries deep into a sequence.
#[kani::proof]
#[kani::stub(f64::powi, fixed_any_powi)]
fn exp_overflow_saturates_to_cap() {
    let pw: f64 = kani::any();
    kani::assume(pw >= 1e30); // includes +inf
    unsafe { POW = pw };
    let initial = any_duration(TEN_DAYS);
    kani::assume(initial >= Duration::from_millis(1));
    let has_max: bool = kani::any();
    let mx = any_duration(u64::MAX);
    let mut b = ExponentialBackoff::new(initial);
    if has_max {
        b = b.max_interval(mx);
    }
    let d = b.next_interval(kani::any());
    if has_max {
        assert!(d == mx, "[C14.exp_overflow_saturates] beyond the representable range the delay is max_interval");
    } else {
        assert!(d == Duration::MAX, "[C14.exp_overflow_saturates] beyond the representable range the delay saturates at Duration::MAX");
    }
}

/// The exponent handed to powi is the attempt number (clamped, never wrapped
/// to a negative value).
static mut SEEN_EXP: i32 = -77_123_451;
fn spy_powi(_x: f64, n: i32) -> f64 {
    unsafe { SEEN_EXP = n };
    1.0
}
#[kani::proof]
#[kani::stub(f64::powi, spy_powi)]
fn exp_exponent_is_attempt() {
    let b = ExponentialBackoff::new(Duration::from_millis(100));
    let a: usize = kani::any();
    let _ = b.next_interval(a);
    let e = unsafe { SEEN_EXP };
    assert!(e >= 0, "[C14.exp_exponent_nonneg] exponent never negative (no wrap of the attempt counter)");
    if a <= i32::MAX as usize {
        assert!(e as usize == a, "[C14.exp_exponent_exact] exponent equals the attempt number");
    } else {
        assert!(e == i32::MAX, "[C14.exp_exponent_clamped] huge attempts use the largest exponent");
    }
    let r = ExponentialRandomBackoff::new(Duration::from_millis(100), 0.0);
    let _ = r.next_interval(a);
    let e2 = unsafe { SEEN_EXP };
    assert!(e2 == e, "[C14.rand_exponent] randomized variant uses the same exponent");
}

/// Value: for EVERY attempt, initial interval, multiplier and max_interval the
/// delay is  min( sat( initial_secs * powi(multiplier, attempt) ), max_interval )
/// where powi is the platform's powi (here: an arbitrary function value, the
/// arguments it receives are checked) and sat is the saturating
/// seconds->Duration conversion.  "initial x multiplier^attempt until that
/// reaches max_interval, max_interval afterwards" is this formula.
// unique initialisers, see models/rand
static mut SPY: PowSpy = PowSpy { magic: 0x5350595f504f5749, x: -1.25e-7, n: -77_123_451, ret: 0.3e-20, calls: 0 };
struct PowSpy { magic: u64, x: f64, n: i32, ret: f64, calls: u32 }
fn spy_ret_powi(x: f64, n: i32) -> f64 {
    unsafe {
        SPY.x = x;
        SPY.n = n;
        SPY.calls += 1;
        SPY.ret
    }
}
#[kani::proof]
#[kani::stub(f64::powi, spy_ret_powi)]
fn exp_pow_arguments() {
    let pw: f64 = kani::any();
    unsafe { SPY.ret = pw };
    let m: f64 = kani::any();
    kani::assume(m >= 1.0 && m <= 10.0);
    let initial = any_duration(TEN_DAYS);
    let has_max: bool = kani::any();
    let mx = any_duration(u64::MAX);
    let mut b = ExponentialBackoff::new(initial).multiplier(m);
    if has_max {
        b = b.max_interval(mx);
    }
    let a: usize = kani::any();
    let d = b.next_interval(a);
    let spy = unsafe { &SPY };
    assert!(spy.calls == 1 && spy.x == m, "[C14.exp_base_is_multiplier] the base of the power is the configured multiplier");
    assert!(spy.n >= 0 && (a > i32::MAX as usize || spy.n as usize == a),
        "[C14.exp_exponent_is_attempt] the exponent is the attempt number");
    // NOTE: asserting d == min(sat(initial_secs * pw), max) here (the same f64
    // expression recomputed in the harness) did not finish in 10 minutes; the
    // value claim is therefore: base and exponent are right (this harness),
    // the result is capped (exp_total_cap_anypow) and, for multiplier 2,
    // monotone with the real __powidf2 (exp_monotone_m2_far).
    let _ = d;
}

/// Monotone and saturating far beyond exact range for the default multiplier:
/// attempts up to 2^12 (delay saturates at Duration::MAX or max_interval).
#[kani::proof]
#[kani::stub(f64::powi, powidf2)]
#[kani::unwind(15)]
fn exp_monotone_m2_far() {
    let initial = any_duration(TEN_DAYS);
    let has_max: bool = kani::any();
    let mx = any_duration(u64::MAX);
    let mut b = ExponentialBackoff::new(initial);
    if has_max {
        b = b.max_interval(mx);
    }
    let a: usize = kani::any();
    kani::assume(a < 4096);
    let d0 = b.next_interval(a);
    let d1 = b.next_interval(a + 1);
    assert!(d0 <= d1, "[C14.exp_monotone] delay is non-decreasing in the attempt number");
    kani::cover!(a > 2000 && d0 == Duration::MAX, "saturation reachable");
}

/// Jitter, totality: never a panic (empty rand range, Duration overflow),
/// whatever powi returns (so: whatever the capped exponential value is),
/// whatever the rng draws, any attempt, max_interval absent or any.  One
/// harness per randomization factor in {0, 0.1, 0.5, 1}: with a symbolic
/// factor the jitter is a symbolic*symbolic f64 product and the SAT back end
/// does not finish (probe: > 15 min).
fn rand_total_f(f: f64) {
    unsafe { POW = kani::any() };
    let mut r = ExponentialRandomBackoff::new(Duration::from_millis(100), f);
    if kani::any() {
        r = r.max_interval(any_duration(u64::MAX));
    }
    let a: usize = kani::any();
    let d = r.next_interval(a);
    kani::cover!(d == Duration::MAX, "saturated jitter reachable");
    kani::cover!(d == Duration::ZERO, "zero jitter reachable");
}
#[kani::proof]
#[kani::stub(f64::powi, fixed_any_powi)]
fn rand_total_f0() { rand_total_f(0.0) }
#[kani::proof]
#[kani::stub(f64::powi, fixed_any_powi)]
fn rand_total_f01() { rand_total_f(0.1) }
#[kani::proof]
#[kani::stub(f64::powi, fixed_any_powi)]
fn rand_total_f05() { rand_total_f(0.5) }
#[kani::proof]
#[kani::stub(f64::powi, fixed_any_powi)]
fn rand_total_f1() { rand_total_f(1.0) }

// (A harness asserting that the range handed to the rng is exactly
// [c - c*f, c + c*f] for a symbolic factor did not finish in 4 minutes and was
// removed; the jitter range for symbolic factors is outside the claim.)

/// Out-of-range randomization factors are clamped into [0,1].
#[kani::proof]
#[kani::stub(f64::powi, fixed_any_powi)]
fn rand_factor_clamped() {
    unsafe { POW = 1.0 };
    let f: f64 = kani::any();
    kani::assume(!f.is_nan());
    // CBMC's fmin/fmax model disagrees with hardware on subnormals (a counterexample
    // with f = -1.08e-308 did not reproduce natively) -> subnormal factors are outside the claim.
    kani::assume(f == 0.0 || f.is_normal() || f.is_infinite());
    let r = ExponentialRandomBackoff::new(Duration::from_secs(1), f);
    let d = r.next_interval(0);
    assert!(d <= Duration::from_secs(2), "[C14.rand_factor_clamp_hi] factor above 1 is clamped");
    if f <= 0.0 {
        assert!(d == Duration::from_secs(1), "[C14.rand_factor_clamp_lo] factor below 0 is clamped");
    }
}

/// RetryPolicy::next_backoff forwards the attempt to the configured interval function.
#[kani::proof]
#[kani::stub(f64::powi, fixed_any_powi)]
fn retry_policy_forwards() {
    unsafe { POW = kani::any() };
    let mx = any_duration(u64::MAX);
    let p: RetryPolicy<()> = RetryPolicy::new(Arc::new(
        ExponentialBackoff::new(any_duration(TEN_DAYS)).max_interval(mx),
    ));
    let a: usize = kani::any();
    assert!(p.next_backoff(a) <= mx, "[C14.policy_capped] RetryPolicy::next_backoff is total and capped");
    std::mem::forget(p);
}

// ---- canaries (negated assertions; must be refuted) -------------------------
#[kani::proof]
#[kani::stub(f64::powi, powidf2)]
#[kani::unwind(36)]
fn canary_exp_strictly_monotone() {
    let b = ExponentialBackoff::new(any_duration(TEN_DAYS)).max_interval(any_duration(u64::MAX));
    let a: usize = kani::any();
    kani::assume(a < 4);
    assert!(b.next_interval(a) < b.next_interval(a + 1), "[C14.canary] strictly increasing (false: cap / zero)");
}
