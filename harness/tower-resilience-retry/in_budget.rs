//! C08 — retry budgets never over-grant; concurrent deposits and withdrawals
//! behave as if executed one at a time.   (child module of `budget`, so the
//! private `tokens` cells are reachable; compiled with feature `verif-hooks`)
//!
//! Rely/guarantee encoding of ALL interleavings with ANY number of other
//! threads: before each atomic step of the operation under analysis the
//! stubbed `atomic_event` may overwrite the cell with any value other threads
//! could have left there (any value satisfying the invariant).  Every write the
//! operation then performs must be one atomic *specification action* on the
//! value actually in the cell at that moment:
//!     withdraw:  v >= cost  and  v' = v - cost          (and the call returns true)
//!     deposit:   v' = min(v + amount, cap)
//! If every write of every operation is such an action, every concurrent
//! history is equivalent to a sequential one (C08 "as if one at a time") and
//! the conservation law  grants*cost + balance <= initial + deposits*amount
//! follows by induction (each action preserves it).
use super::*;
use tower_resilience_core::verif::AtomicOp;

const MAXLOG: usize = 8;
#[derive(Clone, Copy)]
struct Rec {
    /// 0 load, 1 store, 2 cas-success, 3 cas-fail
    kind: u8,
    before: u64,
    new: u64,
}
struct G {
    magic: [u64; 2],
    cell: usize,       // address of the token cell under analysis
    limit_cell: usize, // address of the AIMD limit cell (0 = none)
    cap: u64,          // invariant: tokens <= cap
    unit: u64,         // token values are multiples of `unit`
    lim_min: u64,
    lim_max: u64,
    interferences_left: u8,
    interfered: u8,
    n: usize,
    log: [Rec; MAXLOG],
}
static mut GH: G = G {
    magic: [0x4255444745545f47, 0x484f53545f433038],
    cell: 0, limit_cell: 0, cap: 0, unit: 1, lim_min: 0, lim_max: 0,
    interferences_left: 0, interfered: 0, n: 0,
    log: [Rec { kind: 9, before: 0, new: 0 }; MAXLOG],
};

unsafe fn raw_u64(addr: usize) -> &'static std::sync::atomic::AtomicU64 {
    &*(addr as *const std::sync::atomic::AtomicU64)
}
unsafe fn raw_usize(addr: usize) -> &'static std::sync::atomic::AtomicUsize {
    &*(addr as *const std::sync::atomic::AtomicUsize)
}

/// Replaces `tower_resilience_core::verif::atomic_event`.
fn interfering_event(cell: usize, op: AtomicOp) -> bool {
    use std::sync::atomic::Ordering::Relaxed;
    unsafe {
        if cell == GH.limit_cell && cell != 0 {
            // other threads may move the AIMD limit anywhere inside its bounds
            if GH.interferences_left > 0 && kani::any() {
                GH.interferences_left -= 1;
                let v: u64 = kani::any();
                kani::assume(v >= GH.lim_min && v <= GH.lim_max);
                raw_usize(cell).store(v as usize, Relaxed);
            }
            return false;
        }
        if cell != GH.cell {
            return false;
        }
        // --- interference by other threads, just before this atomic step
        if GH.interferences_left > 0 && kani::any() {
            GH.interferences_left -= 1;
            GH.interfered += 1;
            let v: u64 = kani::any();
            kani::assume(v <= GH.cap && v % GH.unit == 0);
            raw_u64(cell).store(v, Relaxed);
        }
        let before = raw_u64(cell).load(Relaxed);
        let mut spurious = false;
        let rec = match op {
            AtomicOp::Load => Rec { kind: 0, before, new: before },
            AtomicOp::Store { new } => Rec { kind: 1, before, new },
            AtomicOp::Cas { expected, new, weak } => {
                if weak && GH.interferences_left > 0 && kani::any() {
                    GH.interferences_left -= 1;
                    spurious = true;
                }
                if expected == before && !spurious {
                    Rec { kind: 2, before, new }
                } else {
                    Rec { kind: 3, before, new }
                }
            }
            AtomicOp::FetchAdd { delta } => Rec { kind: 1, before, new: before.wrapping_add(delta) },
            AtomicOp::FetchSub { delta } => Rec { kind: 1, before, new: before.wrapping_sub(delta) },
        };
        assert!(GH.n < MAXLOG, "[C08.log_overflow] harness log too small");
        GH.log[GH.n] = rec;
        GH.n += 1;
        spurious
    }
}

fn writes() -> usize {
    let mut k = 0;
    let mut i = 0;
    unsafe {
        while i < GH.n {
            if GH.log[i].kind == 1 || GH.log[i].kind == 2 {
                k += 1;
            }
            i += 1;
        }
    }
    k
}

fn check_withdraw(r: bool, cost: u64) {
    unsafe {
        let mut i = 0;
        let mut w = 0;
        while i < GH.n {
            let e = GH.log[i];
            if e.kind == 1 || e.kind == 2 {
                w += 1;
                assert!(e.before >= cost && e.new == e.before - cost,
                    "[C08.withdraw_atomic] a withdrawal removes exactly `cost` from the balance that is in the cell when it is written");
            }
            i += 1;
        }
        assert!(w == if r { 1 } else { 0 }, "[C08.withdraw_grant_iff_write] try_withdraw returns true iff it took exactly one token unit");
        if !r {
            assert!(GH.n > 0 && GH.log[GH.n - 1].before < cost,
                "[C08.withdraw_refuse_only_if_empty] a refusal saw a balance below the cost");
        }
    }
}

/// deposit spec: v' = min(v + amount, L) for the cap L in force (cap_lo <= L <= cap_hi;
/// equal for the token bucket, the moving AIMD limit for the AIMD budget).
fn check_deposit(amount: u64, cap_lo: u64, cap_hi: u64) {
    unsafe {
        let mut i = 0;
        let mut w = 0;
        while i < GH.n {
            let e = GH.log[i];
            if e.kind == 1 || e.kind == 2 {
                w += 1;
                assert!(e.new <= e.before + amount,
                    "[C08.deposit_atomic] a deposit adds at most `amount` to the balance that is in the cell when it is written (no lost withdrawal)");
                assert!(e.new <= cap_hi, "[C08.deposit_capped] balance never exceeds the configured maximum");
                assert!(e.new == e.before + amount || (e.new >= cap_lo && e.new <= cap_hi),
                    "[C08.deposit_value] the new balance is min(balance + amount, cap)");
                if e.before + amount <= cap_lo {
                    assert!(e.new == e.before + amount, "[C08.deposit_adds] below the cap a deposit adds exactly `amount`");
                }
            }
            i += 1;
        }
        assert!(w <= 1, "[C08.deposit_once] one deposit writes at most once");
        if w == 0 {
            assert!(GH.n > 0 && GH.log[GH.n - 1].before >= cap_lo, "[C08.deposit_happens] a deposit is skipped only at the cap");
        }
    }
}

const SCALE: u64 = 1000;

fn new_token_bucket() -> (TokenBucketBudget, u64) {
    let max: usize = kani::any();
    let initial: usize = kani::any();
    kani::assume(max <= (1 << 20) && initial <= max);
    (TokenBucketBudget::new(10.0, max, initial), (max as u64) * SCALE)
}
/// (the budget must not move after this: the cell is identified by address)
fn watch_token_bucket(b: &TokenBucketBudget, cap: u64) {
    unsafe {
        GH.cell = b.tokens.addr();
        GH.limit_cell = 0;
        GH.cap = cap;
        GH.unit = SCALE;
        GH.interferences_left = 2;
        GH.interfered = 0;
        GH.n = 0;
    }
}

#[kani::proof]
#[kani::unwind(10)]
#[kani::stub(tower_resilience_core::verif::atomic_event, interfering_event)]
fn token_bucket_withdraw_linearizable() {
    let (b, cap) = new_token_bucket();
    watch_token_bucket(&b, cap);
    let r = b.try_withdraw();
    check_withdraw(r, SCALE);
    kani::cover!(r && unsafe { GH.interfered } == 2, "granted after two interferences");
    kani::cover!(!r && unsafe { GH.interfered } > 0, "refused after interference");
}

#[kani::proof]
#[kani::unwind(10)]
#[kani::stub(tower_resilience_core::verif::atomic_event, interfering_event)]
fn token_bucket_deposit_linearizable() {
    let (b, cap) = new_token_bucket();
    watch_token_bucket(&b, cap);
    b.deposit();
    check_deposit(SCALE, cap, cap);
    kani::cover!(unsafe { GH.interfered } == 2, "two interferences during deposit");
}

#[kani::proof]
fn token_bucket_balance_view() {
    let max: usize = kani::any();
    let initial: usize = kani::any();
    kani::assume(max <= (1 << 20) && initial <= max);
    let b = TokenBucketBudget::new(10.0, max, initial);
    assert!(b.balance() == initial, "[C08.balance_view] balance() reports the token count");
}

fn new_aimd() -> (AimdBudget, u64, u64, u64, u64) {
    let min_b: usize = kani::any();
    let max_b: usize = kani::any();
    let dep: usize = kani::any();
    let wd: usize = kani::any();
    kani::assume(max_b <= (1 << 20) && min_b <= max_b);
    kani::assume(dep >= 1 && dep <= 8 && wd >= 1 && wd <= 8);
    (AimdBudget::new(min_b, max_b, dep, wd, 0.5), min_b as u64, max_b as u64, dep as u64, wd as u64)
}
fn watch_aimd(b: &AimdBudget, min_b: u64, max_b: u64) {
    unsafe {
        GH.cell = b.tokens.addr();
        GH.limit_cell = b.limit_controller.limit_cell_addr();
        GH.cap = max_b as u64;
        GH.unit = 1;
        GH.lim_min = min_b as u64;
        GH.lim_max = max_b as u64;
        GH.interferences_left = 2;
        GH.interfered = 0;
        GH.n = 0;
    }
    // arbitrary reachable pre-state of the balance
    let v: u64 = kani::any();
    kani::assume(v <= max_b as u64);
    unsafe { raw_u64(GH.cell).store(v, std::sync::atomic::Ordering::Relaxed) };
}

#[kani::proof]
#[kani::unwind(10)]
#[kani::stub(tower_resilience_core::verif::atomic_event, interfering_event)]
fn aimd_withdraw_linearizable() {
    let (b, mn, mx, _dep, wd) = new_aimd();
    watch_aimd(&b, mn, mx);
    let r = b.try_withdraw();
    check_withdraw(r, wd);
    let lim = b.current_max() as u64;
    assert!(lim >= unsafe { GH.lim_min } && lim <= unsafe { GH.lim_max }, "[C08.aimd_limit_bounds] dynamic maximum stays within [min_budget, max_budget]");
    kani::cover!(r && unsafe { GH.interfered } > 0, "granted after interference");
    kani::cover!(!r, "refused");
}

#[kani::proof]
#[kani::unwind(10)]
#[kani::stub(tower_resilience_core::verif::atomic_event, interfering_event)]
fn aimd_deposit_linearizable() {
    let (b, mn, mx, dep, _wd) = new_aimd();
    watch_aimd(&b, mn, mx);
    b.deposit();
    check_deposit(dep, mn, mx);
    let lim = b.current_max() as u64;
    assert!(lim >= mn && lim <= mx, "[C08.aimd_limit_bounds] dynamic maximum stays within [min_budget, max_budget]");
    kani::cover!(unsafe { GH.interfered } == 2, "two interferences during deposit");
}

// ------------------------------------------------------------------ configuration
/// The values given to the public builders are the ones the budgets use: initial
/// balance / maximum, cost of a retry, amount credited per success (no interference
/// here: this is about plumbing, not atomicity).
#[kani::proof]
#[kani::unwind(4)]
fn aimd_builder_is_faithful() {
    let min: usize = kani::any();
    let max: usize = kani::any();
    let dep: usize = kani::any();
    let wd: usize = kani::any();
    kani::assume(min <= max && max <= 1024 && dep >= 1 && dep <= 8 && wd >= 1 && wd <= 8 && wd <= max);
    let b = RetryBudgetBuilder::new().aimd().min_budget(min).max_budget(max).deposit_amount(dep).withdraw_amount(wd).build();
    assert!(b.balance() == max, "[C08.config_max_budget_used] the budget starts full at the configured maximum");
    assert!(b.try_withdraw() && b.balance() == max - wd, "[C08.config_withdraw_amount_used] a granted retry costs exactly the configured withdraw_amount");
    b.deposit();
    let expect = if max - wd + dep > max { max } else { max - wd + dep };
    assert!(b.balance() == expect, "[C08.config_deposit_amount_used] a success credits exactly the configured deposit_amount, capped at the maximum");
    std::mem::forget(b);
}

#[kani::proof]
#[kani::unwind(4)]
fn token_bucket_builder_is_faithful() {
    let max: usize = kani::any();
    let init: usize = kani::any();
    let set_init: bool = kani::any();
    kani::assume(max >= 1 && max <= 1024 && init <= max);
    let mut tb = RetryBudgetBuilder::new().token_bucket().max_tokens(max);
    if set_init {
        tb = tb.initial_tokens(init);
    }
    let b = tb.build();
    let start = if set_init { init } else { max };
    assert!(b.balance() == start, "[C08.config_initial_tokens_used] the bucket starts with the configured initial tokens (default: full)");
    let granted = b.try_withdraw();
    assert!(granted == (start >= 1) && b.balance() == start - granted as usize, "[C08.retry_costs_one_token] a retry is granted iff a whole token is there and costs exactly one");
    b.deposit();
    assert!(b.balance() <= max, "[C08.config_max_tokens_used] deposits never lift the balance above the configured maximum");
    std::mem::forget(b);
}
