//! In-crate Kani harnesses for tower-resilience-retry (compiled only in the
//! verification overlay, `#[cfg(kani)]`).
pub mod c14;
pub mod env;
pub mod svc;
pub mod c05;
