//! C05 — retry: bounded attempts, stops where it must, returns the last
//! outcome, waits the configured backoff, asks the budget before every retry.
//! One request through the real `Retry::call` future.
use crate::backoff::FnInterval;
use crate::budget::RetryBudget;
use crate::config::{MaxAttemptsSource, RetryConfig};
use crate::policy::RetryPolicy;
use crate::verif_kani::svc::{self, mon, Inner, InnerErr};
use crate::Retry;
use std::marker::PhantomData;
use std::panic::catch_unwind;
use std::sync::Arc;
use std::task::Poll;
use std::time::Duration;
use tokio::model::{self, st};
use tower::Service;

struct G {
    magic: [u64; 2],
    delays: [Duration; 3],
    backoff_asked: [u32; 3],
    backoff_calls: u32,
    withdraws: u32,
    grants: [bool; 3],
    deposits: u32,
    predicate_calls: u32,
    dyn_max: usize,
    dyn_asked: u32,
}
static mut GH: G = G {
    magic: [0x52455452595f4330, 0x355f47484f535421],
    delays: [Duration::ZERO; 3], backoff_asked: [9; 3], backoff_calls: 0, withdraws: 0, grants: [true; 3], deposits: 0,
    predicate_calls: 0, dyn_max: 0, dyn_asked: 0,
};
fn gh() -> &'static mut G {
    unsafe { &mut *core::ptr::addr_of_mut!(GH) }
}

struct GhostBudget;
impl RetryBudget for GhostBudget {
    fn try_withdraw(&self) -> bool {
        let g = gh();
        let i = (g.withdraws as usize).min(2);
        g.withdraws += 1;
        g.grants[i]
    }
    fn deposit(&self) {
        gh().deposits += 1;
    }
    fn balance(&self) -> usize {
        1
    }
}

fn retryable(e: u32) -> bool {
    e & 1 == 1
}
fn any_millis(max_ms: u64) -> Duration {
    let secs: u64 = kani::any();
    let ms: u32 = kani::any();
    kani::assume(ms < 1000 && secs <= max_ms / 1000 && (secs < max_ms / 1000 || (ms as u64) <= max_ms % 1000));
    Duration::new(secs, ms * 1_000_000)
}

fn one_request(with_budget: bool, with_pred: bool, dynamic_max: bool, max_bound: usize) {
    let max_attempts: usize = kani::any();
    kani::assume(max_attempts <= max_bound);
    let g = gh();
    g.delays = [any_millis(10_000), any_millis(10_000), any_millis(10_000)];
    g.grants = [kani::any(), kani::any(), kani::any()];
    g.dyn_max = max_attempts;
    let interval = FnInterval::new(|k: usize| {
        let g = gh();
        if (g.backoff_calls as usize) < 3 {
            g.backoff_asked[g.backoff_calls as usize] = k as u32;
        }
        g.backoff_calls += 1;
        g.delays[k.min(2)]
    });
    let mut policy: RetryPolicy<InnerErr> = RetryPolicy::new(Arc::new(interval));
    if with_pred {
        policy = policy.with_retry_predicate(|e: &InnerErr| {
            gh().predicate_calls += 1;
            retryable(e.0)
        });
    }
    let cfg = RetryConfig {
        policy,
        max_attempts_source: if dynamic_max {
            MaxAttemptsSource::Dynamic(Arc::new(|r: &u32| {
                gh().dyn_asked = *r;
                gh().dyn_max
            }))
        } else {
            MaxAttemptsSource::Fixed(max_attempts)
        },
        event_listeners: tower_resilience_core::EventListeners::new(),
        name: String::new(),
        budget: if with_budget { Some(Arc::new(GhostBudget) as Arc<dyn RetryBudget>) } else { None },
    };
    let mut script = svc::any_script();
    script.never = false;
    script.immediate = true;
    let mut r = Retry::new(Inner::new(script), Arc::new(cfg), PhantomData);
    let req: u32 = kani::any();
    let _ = svc::poll_ready_once(&mut r);
    let mut fut = r.call(req);
    if dynamic_max {
        assert!(gh().dyn_asked == req, "[C05.per_request_max] the per-request attempt limit is computed from this request");
    }
    let limit = if max_attempts == 0 { 1 } else { max_attempts };
    let mut result = None;
    let mut retries: usize = 0; // sleeps completed so far
    let mut step = 0;
    while step + 1 < max_bound.max(1) + 1 && step < 3 {
        // poll at the current instant
        match svc::poll_once(fut.as_mut()) {
            Poll::Ready(x) => {
                result = Some(x);
                break;
            }
            Poll::Pending => {}
        }
        // pending: it is sleeping before retry number k = sleeps_created - 1; back-offs that
        // were created and finished inside one poll must have been zero (no time passes in a poll)
        assert!(st().sleeps_created as usize >= retries + 1, "[C05.pending_only_in_backoff] the call is pending only while backing off");
        let k = st().sleeps_created as usize - 1;
        let mut j = retries;
        while j < k {
            assert!(gh().delays[j.min(2)] == Duration::ZERO, "[C05.waits_backoff] a non-zero backoff is never skipped");
            j += 1;
        }
        retries = k;
        let delay = gh().delays[retries.min(2)];
        assert!(st().last_sleep_duration == delay, "[C05.backoff_value] before retry k it sleeps the policy's backoff for k");
        assert!(gh().backoff_asked[retries.min(2)] as usize == retries, "[C05.backoff_index] the backoff is asked for the number of the retry");
        // let exactly the backoff elapse (the "still waiting before it elapsed" check is the
        // separate harness `waits_full_backoff`: an extra poll per retry here did not finish)
        model::advance(delay);
        retries += 1;
        step += 1;
    }
    if result.is_none() {
        if let Poll::Ready(x) = svc::poll_once(fut.as_mut()) {
            result = Some(x);
        }
    }
    let calls = mon().calls as usize;
    assert!(calls >= 1 || result.is_none(), "[C05.at_least_once] the wrapped service is invoked at least once");
    assert!(calls <= limit, "[C05.bounded_attempts] at most max(1, max_attempts) attempts");
    assert!(mon().last_req == req || calls == 0, "[C05.same_request] every attempt carries the request");
    assert!(mon().unready_mask & 1 == 0, "[C20.retry_first_attempt_ready] the first attempt goes to the instance on which readiness was observed");
    assert!(result.is_some(), "[C05.resolves] with <= 3 attempts and elapsed backoffs the call has resolved");
    if let Some(res) = result {
        // the last outcome observed is outcomes[calls-1]
        let last = script.outcomes[calls - 1];
        assert!(res == last.map_err(InnerErr), "[C05.returns_last_outcome] the result is exactly the last outcome observed");
        // every earlier outcome was a retryable error
        let mut k = 0;
        while k + 1 < calls {
            let o = script.outcomes[k];
            assert!(o.is_err(), "[C05.stops_at_first_success] no attempt after a success");
            if with_pred {
                assert!(retryable(o.unwrap_err()), "[C05.stops_at_refused_error] no attempt after an error the predicate refuses");
            }
            k += 1;
        }
        // why did it stop?
        match last {
            Ok(_) => {
                if with_budget {
                    assert!(gh().deposits == 1, "[C05.deposit_on_success] a success deposits once into the budget");
                }
            }
            Err(e) => {
                assert!(gh().deposits == 0, "[C05.no_deposit_on_failure] failures do not deposit");
                let refused = with_pred && !retryable(e);
                let exhausted = calls >= limit;
                let budget_refused = with_budget && gh().withdraws as usize == calls && !gh().grants[(calls - 1).min(2)];
                assert!(refused || exhausted || budget_refused, "[C05.retries_until_done] a retryable error is retried while attempts and budget remain");
            }
        }
        // budget: every retry was granted first
        if with_budget {
            let mut k = 0;
            while k + 1 < calls {
                assert!(gh().grants[k.min(2)], "[C05.no_grant_no_retry] every retry was granted by the budget first");
                k += 1;
            }
            assert!(gh().withdraws as usize + 1 >= calls && gh().withdraws as usize <= calls, "[C05.one_withdraw_per_retry] one withdrawal per retry decision");
        } else {
            assert!(gh().withdraws == 0, "[C05.no_budget] no budget, no withdrawal");
        }
        assert!(st().sleeps_created as usize + 1 == calls, "[C05.one_backoff_per_retry] one backoff per retry");
        if !with_pred {
            assert!(gh().predicate_calls == 0, "[C05.no_predicate] without a predicate every error is retryable");
        }
    }
    kani::cover!(mon().calls as usize == max_bound, "the largest number of attempts is reachable");
    drop(fut);
    std::mem::forget(r);
}

macro_rules! proofs { ($($name:ident = ($b:expr, $p:expr, $d:expr, $m:expr)),*) => {$(
    #[kani::proof]
    #[kani::unwind(5)]
    #[kani::stub(std::time::Instant::now, tokio::model::std_instant_now)]
    #[kani::stub(catch_unwind, crate::verif_kani::env::catch_unwind_stub)]
    fn $name() { one_request($b, $p, $d, $m) }
)*}}
/// Before the backoff has elapsed the call is still pending and no retry has been issued.
#[kani::proof]
#[kani::unwind(5)]
#[kani::stub(std::time::Instant::now, tokio::model::std_instant_now)]
#[kani::stub(catch_unwind, crate::verif_kani::env::catch_unwind_stub)]
fn waits_full_backoff() {
    let d = any_millis(10_000);
    gh().delays = [d, d, d];
    let interval = FnInterval::new(|k: usize| gh().delays[k.min(2)]);
    let cfg = RetryConfig {
        policy: RetryPolicy::<InnerErr>::new(Arc::new(interval)),
        max_attempts_source: MaxAttemptsSource::Fixed(2),
        event_listeners: tower_resilience_core::EventListeners::new(),
        name: String::new(),
        budget: None,
    };
    let mut script = svc::any_script();
    script.never = false;
    script.immediate = true;
    script.outcomes[0] = Err(kani::any());
    let mut r = Retry::new(Inner::new(script), Arc::new(cfg), PhantomData);
    let _ = svc::poll_ready_once(&mut r);
    let mut fut = r.call(kani::any());
    let p = svc::poll_once(fut.as_mut());
    if d > Duration::ZERO {
        assert!(p.is_pending() && mon().calls == 1, "[C05.waits_backoff] after a retryable failure the call backs off");
        let early = any_millis(10_000);
        kani::assume(early < d);
        model::advance(early);
        let p = svc::poll_once(fut.as_mut());
        assert!(p.is_pending() && mon().calls == 1, "[C05.waits_backoff] no retry before the backoff has elapsed");
        model::advance(d - early);
        let p = svc::poll_once(fut.as_mut());
        assert!(p.is_ready() && mon().calls == 2, "[C05.retries_when_backoff_elapsed] the retry is issued as soon as the backoff has elapsed");
        assert!(mon().call_times[1] >= mon().call_times[0] + d, "[C05.waits_backoff] retry k starts at least backoff(k) after the failed attempt");
    } else {
        assert!(p.is_ready() && mon().calls == 2, "[C05.zero_backoff] a zero backoff retries at once");
    }
    drop(fut);
    std::mem::forget(r);
}

/// The backoff is measured from the FAILURE of the attempt, not from its start: an attempt
/// that itself took `lat` is still followed by the full backoff.
#[kani::proof]
#[kani::unwind(5)]
#[kani::stub(std::time::Instant::now, tokio::model::std_instant_now)]
#[kani::stub(catch_unwind, crate::verif_kani::env::catch_unwind_stub)]
fn waits_full_backoff_after_slow_attempt() {
    // the attempt takes a fixed 2 s (a symbolic latency on top of the symbolic backoff and the
    // symbolic probe instant ran past 10 minutes); backoff and probe instant are symbolic
    let lat = Duration::from_secs(2);
    let d = any_millis(10_000);
    kani::assume(d > Duration::ZERO);
    gh().delays = [d, d, d];
    let interval = FnInterval::new(|k: usize| gh().delays[k.min(2)]);
    let cfg = RetryConfig {
        policy: RetryPolicy::<InnerErr>::new(Arc::new(interval)),
        max_attempts_source: MaxAttemptsSource::Fixed(2),
        event_listeners: tower_resilience_core::EventListeners::new(),
        name: String::new(),
        budget: None,
    };
    let mut script = svc::any_script();
    script.never = false;
    script.immediate = false;
    script.latency = Some(lat);
    script.outcomes[0] = Err(kani::any());
    let mut r = Retry::new(Inner::new(script), Arc::new(cfg), PhantomData);
    let _ = svc::poll_ready_once(&mut r);
    let mut fut = r.call(kani::any());
    let p = svc::poll_once(fut.as_mut());
    assert!(p.is_pending() && mon().calls == 1 && mon().completed == 0, "[C05.first_attempt_running] the first attempt is running");
    model::advance(lat);
    let p = svc::poll_once(fut.as_mut()); // the attempt fails now
    assert!(p.is_pending() && mon().calls == 1 && mon().completed == 1, "[C05.waits_backoff] after a retryable failure the call backs off");
    let early = any_millis(10_000);
    kani::assume(early < d);
    model::advance(early);
    let p = svc::poll_once(fut.as_mut());
    assert!(p.is_pending() && mon().calls == 1, "[C05.waits_backoff] no retry before the full backoff has elapsed SINCE THE FAILURE (the attempt's own duration does not count)");
    std::mem::forget(fut);
    std::mem::forget(r);
}

/// KNOWN FINDING witness (C20 readiness): retries are issued on the same service value
/// without polling it ready again.
#[kani::proof]
#[kani::unwind(5)]
#[kani::stub(std::time::Instant::now, tokio::model::std_instant_now)]
#[kani::stub(catch_unwind, crate::verif_kani::env::catch_unwind_stub)]
fn c20_retries_unready() {
    gh().delays = [Duration::ZERO; 3];
    let interval = FnInterval::new(|k: usize| gh().delays[k.min(2)]);
    let cfg = RetryConfig {
        policy: RetryPolicy::<InnerErr>::new(Arc::new(interval)),
        max_attempts_source: MaxAttemptsSource::Fixed(2),
        event_listeners: tower_resilience_core::EventListeners::new(),
        name: String::new(),
        budget: None,
    };
    let mut script = svc::any_script();
    script.never = false;
    script.immediate = true;
    script.outcomes[0] = Err(kani::any());
    let mut r = Retry::new(Inner::new(script), Arc::new(cfg), PhantomData);
    let _ = svc::poll_ready_once(&mut r);
    let mut fut = r.call(kani::any());
    let p = svc::poll_once(fut.as_mut());
    assert!(p.is_ready() && mon().calls == 2, "[C05.zero_backoff] a zero backoff retries at once");
    assert!(mon().unready_mask & 1 == 0, "[C20.retry_first_attempt_ready] the first attempt goes to the instance on which readiness was observed");
    assert!(mon().unready_mask & 2 == 0, "[C20.retry_attempts_unready] every retry goes to an instance on which readiness was observed since its previous call");
    drop(fut);
    std::mem::forget(r);
}

proofs!(plain = (false, false, false, 3), with_predicate = (false, true, false, 3), with_budget = (true, false, false, 3),
        with_budget_predicate_dynamic_max = (true, true, true, 3),
        plain_two_attempts = (false, false, false, 2), with_budget_two_attempts = (true, true, false, 2));

/// Configuration reaches the service: attempt limit (fixed or per request), fixed back-off,
/// predicate and budget set through the public builder — in two different orders — are the
/// ones in the config of the service the layer builds.
#[kani::proof]
#[kani::unwind(4)]
fn builder_is_faithful() {
    use tower::Layer;
    let n: usize = kani::any();
    let d = any_millis(1_000_000);
    let dynamic: bool = kani::any();
    let with_pred: bool = kani::any();
    let with_budget: bool = kani::any();
    let k: usize = kani::any();
    gh().dyn_max = n;
    let mut b = crate::RetryLayer::<u32, InnerErr>::builder();
    let budget_first: bool = kani::any();
    if with_budget && budget_first {
        b = b.budget(Arc::new(GhostBudget) as Arc<dyn RetryBudget>);
    }
    b = b.fixed_backoff(d);
    b = if dynamic {
        b.max_attempts_fn(|r: &u32| {
            gh().dyn_asked = *r;
            gh().dyn_max
        })
    } else {
        b.max_attempts(n)
    };
    if with_pred {
        b = b.retry_on(|e: &InnerErr| e.0 & 1 == 0);
    }
    if with_budget && !budget_first {
        b = b.budget(Arc::new(GhostBudget) as Arc<dyn RetryBudget>);
    }
    let layer = b.build();
    let r = layer.layer(Inner::new(svc::any_script()));
    let c = &r.config;
    let req: u32 = kani::any();
    assert!(c.max_attempts_source.get_max_attempts(&req) == n, "[C05.config_max_attempts_used] the configured attempt limit (fixed or per request) is the one the service uses");
    if dynamic {
        assert!(gh().dyn_asked == req, "[C05.per_request_max] the per-request attempt limit is computed from this request");
    }
    assert!(c.policy.next_backoff(k) == d, "[C05.config_backoff_used] the configured fixed back-off is the one the service waits");
    let e: u32 = kani::any();
    assert!(c.policy.should_retry(&InnerErr(e)) == (!with_pred || e & 1 == 0), "[C05.config_predicate_used] the configured retry predicate decides (default: every error is retryable)");
    assert!(c.budget.is_some() == with_budget, "[C05.config_budget_used] a configured budget is installed, none otherwise");
    std::mem::forget(r);
    std::mem::forget(layer);
}

/// C20 readiness clause for retry: see svc::check_readiness_passthrough.
#[kani::proof]
#[kani::unwind(4)]
fn readiness_passthrough() {
    use tower::Layer;
    let layer = crate::RetryLayer::<u32, InnerErr>::builder().max_attempts(2).fixed_backoff(Duration::ZERO).build();
    let mut r = layer.layer(Inner::new(svc::any_script()));
    svc::check_readiness_passthrough(&mut r);
    std::mem::forget(r);
    std::mem::forget(layer);
}
