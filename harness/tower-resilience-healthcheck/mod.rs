//! In-crate Kani harnesses for tower-resilience-healthcheck.
pub mod env;
pub mod c18;
