//! Child module of `context`: the counter part of the threshold clause (C18) as one
//! inductive step from an ARBITRARY counter state -- the only part of that clause that is
//! within reach (the decision code around it lives in a closure nested in two spawns).
use super::*;

fn any_ctx() -> (HealthCheckedContext<u32>, u64, u64, HealthStatus) {
    let c = HealthCheckedContext::new(0u32, String::new());
    let f: u64 = kani::any();
    let s: u64 = kani::any();
    kani::assume(f < u64::MAX && s < u64::MAX);
    // a run of failures and a run of successes never coexist
    kani::assume(f == 0 || s == 0);
    let k: u8 = kani::any();
    kani::assume(k < 4);
    let st = match k {
        0 => HealthStatus::Healthy,
        1 => HealthStatus::Degraded,
        2 => HealthStatus::Unhealthy,
        _ => HealthStatus::Unknown,
    };
    {
        let mut g = c.state.write().unwrap();
        g.consecutive_failures = f;
        g.consecutive_successes = s;
        g.status = st;
    }
    (c, f, s, st)
}

#[kani::proof]
#[kani::unwind(4)]
#[kani::stub(std::hash::RandomState::new, crate::verif_kani::c18::random_state_stub)]
fn context_counters_step() {
    let (c, f, s, st) = any_ctx();
    if kani::any() {
        c.record_success();
        assert!(c.consecutive_successes() == s + 1 && c.consecutive_failures() == 0, "[C18.success_extends_run] a non-failing check extends the run of successes by one and ends the run of failures");
    } else {
        c.record_failure();
        assert!(c.consecutive_failures() == f + 1 && c.consecutive_successes() == 0, "[C18.failure_extends_run] a failed check extends the run of failures by one and ends the run of successes");
    }
    assert!(c.status() == st, "[C18.counting_publishes_nothing] counting a result does not by itself change the published status");
    let k: u8 = kani::any();
    kani::assume(k < 4);
    let new = match k {
        0 => HealthStatus::Healthy,
        1 => HealthStatus::Degraded,
        2 => HealthStatus::Unhealthy,
        _ => HealthStatus::Unknown,
    };
    let (f1, s1) = (c.consecutive_failures(), c.consecutive_successes());
    c.set_status(new);
    assert!(c.status() == new && c.consecutive_failures() == f1 && c.consecutive_successes() == s1, "[C18.publish_keeps_runs] publishing a status does not touch the runs");
    std::mem::forget(c);
}
