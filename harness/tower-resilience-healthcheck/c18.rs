//! C18 (selection part) — `SelectionStrategy::select` returns only eligible
//! resources, nothing when none qualifies, and round-robin visits the eligible
//! ones evenly.  Real `HealthCheckedContext`s (std RwLock state) with symbolic
//! published statuses.
use crate::selector::SelectionStrategy;
use crate::{HealthCheckedContext, HealthStatus};
use std::sync::atomic::AtomicUsize;
use std::sync::Arc;

/// `HashMap::new()` inside `HealthCheckedContext::new` needs OS randomness for its
/// SipHash keys (FFI, unsupported); the map is never touched on these paths.
fn random_state_stub() -> std::hash::RandomState {
    unsafe { core::mem::zeroed() }
}

fn any_status() -> HealthStatus {
    let k: u8 = kani::any();
    match k % 4 {
        0 => HealthStatus::Healthy,
        1 => HealthStatus::Degraded,
        2 => HealthStatus::Unhealthy,
        _ => HealthStatus::Unknown,
    }
}

fn mk(n: usize) -> (Vec<HealthCheckedContext<u32>>, [HealthStatus; 3]) {
    let mut v = Vec::with_capacity(3);
    let mut st = [HealthStatus::Unknown; 3];
    let mut i = 0;
    while i < n {
        let c = HealthCheckedContext::new(i as u32, String::new());
        st[i] = any_status();
        c.set_status(st[i]);
        v.push(c);
        i += 1;
    }
    (v, st)
}

fn usable_count(st: &[HealthStatus; 3], n: usize) -> usize {
    let mut k = 0;
    let mut i = 0;
    while i < n {
        if st[i].is_usable() {
            k += 1;
        }
        i += 1;
    }
    k
}

fn builtin(strategy: SelectionStrategy, n: usize, prefer_healthy: bool, first: bool) {
    let (ctxs, st) = mk(n);
    let counter = AtomicUsize::new(kani::any());
    let r = strategy.select(&ctxs, &counter);
    let usable = usable_count(&st, n);
    match r {
        None => assert!(usable == 0, "[C18.none_iff_none_eligible] nothing is returned only when no resource is usable"),
        Some(i) => {
            assert!(i < n, "[C18.index_in_range] the selected index refers to a resource");
            assert!(st[i].is_usable(), "[C18.only_eligible] only healthy or degraded resources are selected");
            if first {
                let mut j = 0;
                while j < i {
                    assert!(!st[j].is_usable(), "[C18.first_available] first-available picks the first usable resource");
                    j += 1;
                }
            }
            if prefer_healthy {
                let mut any_healthy = false;
                let mut j = 0;
                while j < n {
                    if st[j] == HealthStatus::Healthy {
                        any_healthy = true;
                    }
                    j += 1;
                }
                if any_healthy {
                    assert!(st[i] == HealthStatus::Healthy, "[C18.prefer_healthy] a healthy resource is preferred over a degraded one");
                }
            }
        }
    }
    kani::cover!(r.is_none() && n > 0, "nothing eligible");
    kani::cover!(matches!(r, Some(i) if i + 1 == n) && n > 1, "last resource selected");
    std::mem::forget(ctxs);
}

macro_rules! proofs { ($($name:ident = ($s:expr, $n:expr, $p:expr, $f:expr)),*) => {$(
    #[kani::proof]
    #[kani::unwind(5)]
    #[kani::stub(std::hash::RandomState::new, random_state_stub)]
    fn $name() { builtin($s, $n, $p, $f) }
)*}}
proofs!(first_available_n3 = (SelectionStrategy::FirstAvailable, 3, false, true),
        prefer_healthy_n3 = (SelectionStrategy::PreferHealthy, 3, true, false),
        round_robin_n3 = (SelectionStrategy::RoundRobin, 3, false, false),
        round_robin_n2 = (SelectionStrategy::RoundRobin, 2, false, false));

/// Empty resource list.
#[kani::proof]
#[kani::unwind(5)]
fn empty_list_selects_nothing() {
    let ctxs: Vec<HealthCheckedContext<u32>> = Vec::new();
    let counter = AtomicUsize::new(kani::any());
    assert!(SelectionStrategy::FirstAvailable.select(&ctxs, &counter).is_none(), "[C18.empty_none] no resources, no selection");
    assert!(SelectionStrategy::RoundRobin.select(&ctxs, &counter).is_none(), "[C18.empty_none] no resources, no selection");
    assert!(SelectionStrategy::PreferHealthy.select(&ctxs, &counter).is_none(), "[C18.empty_none] no resources, no selection");
}

/// Round-robin fairness, inductive form: on a fixed status vector two consecutive
/// selections (any value of the shared counter below 2^32) return an eligible
/// resource and then its CYCLIC SUCCESSOR among the eligible ones.  Hence any k
/// consecutive selections visit the eligible resources evenly (counts differ by
/// at most one).  (A 6-selection harness exhausted the solver's memory.)
#[kani::proof]
#[kani::unwind(6)]
#[kani::stub(std::hash::RandomState::new, random_state_stub)]
fn round_robin_successor() {
    let (ctxs, st) = mk(3);
    let start: usize = kani::any();
    kani::assume(start <= u32::MAX as usize);
    let counter = AtomicUsize::new(start);
    let usable = usable_count(&st, 3);
    kani::assume(usable >= 1);
    let a = SelectionStrategy::RoundRobin.select(&ctxs, &counter);
    let b = SelectionStrategy::RoundRobin.select(&ctxs, &counter);
    assert!(a.is_some() && b.is_some(), "[C18.none_iff_none_eligible] nothing is returned only when no resource is usable");
    let (a, b) = (a.unwrap(), b.unwrap());
    assert!(a < 3 && b < 3 && st[a].is_usable() && st[b].is_usable(), "[C18.only_eligible] only healthy or degraded resources are selected");
    // cyclic successor of a among the eligible resources
    let mut succ = a;
    let mut k = 1;
    while k <= 3 {
        let c = (a + k) % 3;
        if st[c].is_usable() {
            succ = c;
            break;
        }
        k += 1;
    }
    assert!(b == succ, "[C18.round_robin_even] round-robin moves to the next eligible resource, visiting all of them evenly");
    kani::cover!(usable == 2 && a != b, "two eligible resources alternate");
    kani::cover!(usable == 3, "three eligible resources");
    std::mem::forget(ctxs);
}

/// Custom selector: receives exactly the published statuses; its answer is returned.
#[kani::proof]
#[kani::unwind(5)]
#[kani::stub(std::hash::RandomState::new, random_state_stub)]
fn custom_selector_sees_statuses() {
    struct G { magic: u64, seen: [HealthStatus; 3], len: usize, answer: Option<usize> }
    static mut GH: G = G { magic: 0x4331385f43555354, seen: [HealthStatus::Unknown; 3], len: 99, answer: None };
    let (ctxs, st) = mk(3);
    let ans: Option<usize> = if kani::any() { Some(kani::any()) } else { None };
    unsafe { GH.answer = ans };
    let s = SelectionStrategy::Custom(Arc::new(|statuses: &[HealthStatus]| unsafe {
        GH.len = statuses.len();
        let mut i = 0;
        while i < statuses.len() && i < 3 {
            GH.seen[i] = statuses[i];
            i += 1;
        }
        GH.answer
    }));
    let counter = AtomicUsize::new(0);
    let r = s.select(&ctxs, &counter);
    assert!(r == ans, "[C18.custom_answer] the custom selector's answer is returned");
    assert!(unsafe { GH.len } == 3 && unsafe { GH.seen } == st, "[C18.custom_sees_statuses] the custom selector sees the published statuses in order");
    std::mem::forget(ctxs);
    std::mem::forget(s);
}
