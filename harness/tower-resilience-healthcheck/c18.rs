//! C18 (selection part) — `SelectionStrategy::select` returns only eligible
//! resources, nothing when none qualifies, and round-robin visits the eligible
//! ones evenly.  Real `HealthCheckedContext`s (std RwLock state) with symbolic
//! published statuses.
use crate::selector::SelectionStrategy;
use crate::{HealthCheckedContext, HealthStatus};
use std::sync::atomic::AtomicUsize;
use std::sync::Arc;

/// `HashMap::new()` inside `HealthCheckedContext::new` needs OS randomness for its
/// SipHash keys (FFI, unsupported); the map is never touched on these paths.
pub(crate) fn random_state_stub() -> std::hash::RandomState {
    unsafe { core::mem::zeroed() }
}

fn any_status() -> HealthStatus {
    let k: u8 = kani::any();
    match k % 4 {
        0 => HealthStatus::Healthy,
        1 => HealthStatus::Degraded,
        2 => HealthStatus::Unhealthy,
        _ => HealthStatus::Unknown,
    }
}

fn mk(n: usize) -> (Vec<HealthCheckedContext<u32>>, [HealthStatus; 3]) {
    let mut v = Vec::with_capacity(3);
    let mut st = [HealthStatus::Unknown; 3];
    let mut i = 0;
    while i < n {
        let c = HealthCheckedContext::new(i as u32, String::new());
        st[i] = any_status();
        c.set_status(st[i]);
        v.push(c);
        i += 1;
    }
    (v, st)
}

fn usable_count(st: &[HealthStatus; 3], n: usize) -> usize {
    let mut k = 0;
    let mut i = 0;
    while i < n {
        if st[i].is_usable() {
            k += 1;
        }
        i += 1;
    }
    k
}

fn builtin(strategy: SelectionStrategy, n: usize, prefer_healthy: bool, first: bool) {
    let (ctxs, st) = mk(n);
    let counter = AtomicUsize::new(kani::any());
    let r = strategy.select(&ctxs, &counter);
    let usable = usable_count(&st, n);
    match r {
        None => assert!(usable == 0, "[C18.none_iff_none_eligible] nothing is returned only when no resource is usable"),
        Some(i) => {
            assert!(i < n, "[C18.index_in_range] the selected index refers to a resource");
            assert!(st[i].is_usable(), "[C18.only_eligible] only healthy or degraded resources are selected");
            if first {
                let mut j = 0;
                while j < i {
                    assert!(!st[j].is_usable(), "[C18.first_available] first-available picks the first usable resource");
                    j += 1;
                }
            }
            if prefer_healthy {
                let mut any_healthy = false;
                let mut j = 0;
                while j < n {
                    if st[j] == HealthStatus::Healthy {
                        any_healthy = true;
                    }
                    j += 1;
                }
                if any_healthy {
                    assert!(st[i] == HealthStatus::Healthy, "[C18.prefer_healthy] a healthy resource is preferred over a degraded one");
                }
            }
        }
    }
    kani::cover!(r.is_none() && n > 0, "nothing eligible");
    kani::cover!(matches!(r, Some(i) if i + 1 == n) && n > 1, "last resource selected");
    std::mem::forget(ctxs);
}

macro_rules! proofs { ($($name:ident = ($s:expr, $n:expr, $p:expr, $f:expr)),*) => {$(
    #[kani::proof]
    #[kani::unwind(5)]
    #[kani::stub(std::hash::RandomState::new, random_state_stub)]
    fn $name() { builtin($s, $n, $p, $f) }
)*}}
proofs!(first_available_n3 = (SelectionStrategy::FirstAvailable, 3, false, true),
        prefer_healthy_n3 = (SelectionStrategy::PreferHealthy, 3, true, false),
        round_robin_n3 = (SelectionStrategy::RoundRobin, 3, false, false),
        round_robin_n2 = (SelectionStrategy::RoundRobin, 2, false, false));

/// Empty resource list.
#[kani::proof]
#[kani::unwind(5)]
fn empty_list_selects_nothing() {
    let ctxs: Vec<HealthCheckedContext<u32>> = Vec::new();
    let counter = AtomicUsize::new(kani::any());
    assert!(SelectionStrategy::FirstAvailable.select(&ctxs, &counter).is_none(), "[C18.empty_none] no resources, no selection");
    assert!(SelectionStrategy::RoundRobin.select(&ctxs, &counter).is_none(), "[C18.empty_none] no resources, no selection");
    assert!(SelectionStrategy::PreferHealthy.select(&ctxs, &counter).is_none(), "[C18.empty_none] no resources, no selection");
}

/// Round-robin fairness, inductive form: on a fixed status vector two consecutive
/// selections (any value of the shared counter below 2^32) return an eligible
/// resource and then its CYCLIC SUCCESSOR among the eligible ones.  Hence any k
/// consecutive selections visit the eligible resources evenly (counts differ by
/// at most one).  (A 6-selection harness exhausted the solver's memory.)
#[kani::proof]
#[kani::unwind(6)]
#[kani::stub(std::hash::RandomState::new, random_state_stub)]
fn round_robin_successor() {
    let (ctxs, st) = mk(3);
    let start: usize = kani::any();
    kani::assume(start <= u32::MAX as usize);
    let counter = AtomicUsize::new(start);
    let usable = usable_count(&st, 3);
    kani::assume(usable >= 1);
    let a = SelectionStrategy::RoundRobin.select(&ctxs, &counter);
    let b = SelectionStrategy::RoundRobin.select(&ctxs, &counter);
    assert!(a.is_some() && b.is_some(), "[C18.none_iff_none_eligible] nothing is returned only when no resource is usable");
    let (a, b) = (a.unwrap(), b.unwrap());
    assert!(a < 3 && b < 3 && st[a].is_usable() && st[b].is_usable(), "[C18.only_eligible] only healthy or degraded resources are selected");
    // cyclic successor of a among the eligible resources
    let mut succ = a;
    let mut k = 1;
    while k <= 3 {
        let c = (a + k) % 3;
        if st[c].is_usable() {
            succ = c;
            break;
        }
        k += 1;
    }
    assert!(b == succ, "[C18.round_robin_even] round-robin moves to the next eligible resource, visiting all of them evenly");
    kani::cover!(usable == 2 && a != b, "two eligible resources alternate");
    kani::cover!(usable == 3, "three eligible resources");
    std::mem::forget(ctxs);
}

/// Custom selector: receives exactly the published statuses; its answer is returned.
#[kani::proof]
#[kani::unwind(5)]
#[kani::stub(std::hash::RandomState::new, random_state_stub)]
fn custom_selector_sees_statuses() {
    struct G { magic: u64, seen: [HealthStatus; 3], len: usize, answer: Option<usize> }
    static mut GH: G = G { magic: 0x4331385f43555354, seen: [HealthStatus::Unknown; 3], len: 99, answer: None };
    let (ctxs, st) = mk(3);
    let ans: Option<usize> = if kani::any() { Some(kani::any()) } else { None };
    unsafe { GH.answer = ans };
    let s = SelectionStrategy::Custom(Arc::new(|statuses: &[HealthStatus]| unsafe {
        GH.len = statuses.len();
        let mut i = 0;
        while i < statuses.len() && i < 3 {
            GH.seen[i] = statuses[i];
            i += 1;
        }
        GH.answer
    }));
    let counter = AtomicUsize::new(0);
    let r = s.select(&ctxs, &counter);
    assert!(r == ans, "[C18.custom_answer] the custom selector's answer is returned");
    assert!(unsafe { GH.len } == 3 && unsafe { GH.seen } == st, "[C18.custom_sees_statuses] the custom selector sees the published statuses in order");
    std::mem::forget(ctxs);
    std::mem::forget(s);
}

// ---------------------------------------------------------------------------
// C18 (threshold part) — the periodic check task of the real
// `HealthCheckWrapper::start()`, driven by the harness as the runtime: outer
// task (interval loop) and one spawned check task per tick, virtual clock.
// ---------------------------------------------------------------------------
use crate::wrapper::HealthCheckWrapper;
use crate::HealthChecker;
use std::future::Future;
use std::pin::Pin;
use std::task::{Context, Poll};
use std::time::Duration;
use tokio::model;

struct Tg {
    magic: [u64; 2],
    /// result of check k: 0 healthy, 1 degraded, 2 unhealthy, 3 unknown, 4 slower than the check timeout
    results: [u8; 4],
    checks: usize,
}
static mut TG: Tg = Tg { magic: [0x4331385f54485245, 0x53484f4c44535f21], results: [0; 4], checks: 0 };
fn tg() -> &'static mut Tg {
    unsafe { &mut *core::ptr::addr_of_mut!(TG) }
}
struct Chk;
struct CheckFut(u8);
impl Future for CheckFut {
    type Output = HealthStatus;
    fn poll(self: Pin<&mut Self>, _cx: &mut Context<'_>) -> Poll<HealthStatus> {
        match self.0 {
            0 => Poll::Ready(HealthStatus::Healthy),
            1 => Poll::Ready(HealthStatus::Degraded),
            2 => Poll::Ready(HealthStatus::Unhealthy),
            3 => Poll::Ready(HealthStatus::Unknown),
            _ => Poll::Pending,
        }
    }
}
impl HealthChecker<u32> for Chk {
    fn check(&self, _r: &u32) -> impl Future<Output = HealthStatus> + Send {
        let t = tg();
        let k = t.checks.min(3);
        t.checks += 1;
        CheckFut(t.results[k])
    }
}
fn system_time_stub() -> std::time::SystemTime {
    std::time::UNIX_EPOCH + model::now()
}

fn poll_ready<F: Future>(f: F) -> F::Output {
    let mut f = Box::pin(f);
    let mut cx = Context::from_waker(std::task::Waker::noop());
    match f.as_mut().poll(&mut cx) {
        Poll::Ready(v) => v,
        Poll::Pending => {
            kani::assume(false);
            unreachable!()
        }
    }
}

fn thresholds(ticks: usize) {
    let ft: u32 = kani::any();
    let st: u32 = kani::any();
    kani::assume(ft >= 1 && ft <= 3 && st >= 1 && st <= 3);
    let mut i = 0;
    while i < 4 {
        let r: u8 = kani::any();
        kani::assume(r <= 4);
        tg().results[i] = r;
        i += 1;
    }
    let w = HealthCheckWrapper::builder()
        .with_context(7u32, String::new())
        .with_checker(Chk)
        .with_interval(Duration::from_secs(1))
        .with_initial_delay(Duration::ZERO)
        .with_timeout(Duration::from_millis(100))
        .with_failure_threshold(ft)
        .with_success_threshold(st)
        .build();
    poll_ready(w.start());
    // reference machine, from the statement
    let mut status = HealthStatus::Unknown;
    let (mut succ, mut fail) = (0u32, 0u32);
    let mut tick = 0;
    while tick < ticks {
        model::poll_task(0); // interval fires, the check task is spawned
        assert!(model::task_count() == tick + 2, "[C18.one_check_per_tick] one check per resource per interval tick");
        let id = tick + 1;
        let fin = model::poll_task(id);
        let r = tg().results[tick.min(3)];
        if r == 4 {
            assert!(!fin, "[C18.slow_check_waits_for_timeout] a slow check is not decided before the check timeout");
            model::advance(Duration::from_millis(100));
            let fin2 = model::poll_task(id);
            assert!(fin2, "[C18.slow_check_times_out] a check slower than the timeout is decided at the timeout");
        } else {
            assert!(fin, "[C18.check_completes] a completed check is processed at once");
        }
        match r {
            0 => {
                succ += 1;
                fail = 0;
                if succ >= st {
                    status = HealthStatus::Healthy;
                }
            }
            1 => {
                succ += 1;
                fail = 0;
                status = HealthStatus::Degraded;
            }
            3 => {}
            _ => {
                fail += 1;
                succ = 0;
                if fail >= ft {
                    status = HealthStatus::Unhealthy;
                }
            }
        }
        let published = poll_ready(w.get_status(""));
        assert!(published == Some(status), "[C18.status_flips_at_thresholds] the published status changes exactly at the configured thresholds (degraded at once, unknown never)");
        let h = poll_ready(w.get_healthy());
        let u = poll_ready(w.get_usable());
        assert!(h.is_some() == (status == HealthStatus::Healthy), "[C18.get_healthy_only_healthy] get_healthy returns a resource only while it is published healthy");
        assert!(u.is_some() == status.is_usable(), "[C18.get_usable_only_usable] get_usable returns a resource only while it is published healthy or degraded");
        model::poll_task(0); // the outer task collects the check and waits for the next tick
        model::advance(Duration::from_secs(1));
        tick += 1;
    }
    kani::cover!(status == HealthStatus::Unhealthy && ft == 2, "unhealthy after two consecutive failures");
    kani::cover!(status == HealthStatus::Healthy && st == 2, "healthy after two consecutive successes");
    std::mem::forget(w);
}

#[kani::proof]
#[kani::unwind(8)]
#[kani::stub(std::hash::RandomState::new, random_state_stub)]
#[kani::stub(std::time::SystemTime::now, system_time_stub)]
#[kani::stub(std::time::Instant::now, tokio::model::std_instant_now)]
fn thresholds_three_ticks() { thresholds(3) }

#[kani::proof]
#[kani::unwind(8)]
#[kani::stub(std::hash::RandomState::new, random_state_stub)]
#[kani::stub(std::time::SystemTime::now, system_time_stub)]
#[kani::stub(std::time::Instant::now, tokio::model::std_instant_now)]
fn thresholds_two_ticks() { thresholds(2) }

// ---------------------------------------------------------------------------
// get_healthy / get_usable through the real wrapper (filter + strategy + index
// mapping back to the resource), for every vector of published statuses.
// ---------------------------------------------------------------------------
fn wrapper_selection(strategy: SelectionStrategy, usable_too: bool) {
    let w = HealthCheckWrapper::builder()
        .with_context(0u32, String::new())
        .with_context(1u32, String::new())
        .with_checker(Chk)
        .with_selection_strategy(strategy)
        .build();
    let st = [any_status(), any_status()];
    w.model_publish(0, st[0]);
    w.model_publish(1, st[1]);
    let h = poll_ready(w.get_healthy());
    let any_healthy = st[0] == HealthStatus::Healthy || st[1] == HealthStatus::Healthy;
    match h {
        Some(r) => assert!(r < 2 && st[r as usize] == HealthStatus::Healthy, "[C18.get_healthy_only_healthy] get_healthy returns only resources currently published healthy"),
        None => assert!(!any_healthy, "[C18.get_healthy_none_iff_none] get_healthy returns nothing only when no resource is healthy"),
    }
    if usable_too {
        let u = poll_ready(w.get_usable());
        let any_usable = st[0].is_usable() || st[1].is_usable();
        match u {
            Some(r) => assert!(r < 2 && st[r as usize].is_usable(), "[C18.get_usable_only_usable] get_usable returns only healthy or degraded resources"),
            None => assert!(!any_usable, "[C18.get_usable_none_iff_none] get_usable returns nothing only when no resource is usable"),
        }
    }
    kani::cover!(h == Some(1), "healthy resource behind a non-healthy one");
    std::mem::forget(w);
}
#[kani::proof]
#[kani::unwind(5)]
#[kani::stub(std::hash::RandomState::new, random_state_stub)]
fn wrapper_get_first_available() { wrapper_selection(SelectionStrategy::FirstAvailable, false) }
#[kani::proof]
#[kani::unwind(5)]
#[kani::stub(std::hash::RandomState::new, random_state_stub)]
fn wrapper_get_round_robin() { wrapper_selection(SelectionStrategy::RoundRobin, true) }
