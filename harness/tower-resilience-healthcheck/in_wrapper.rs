//! Child module of `wrapper`: lets the harness publish statuses directly (what the
//! periodic task would have published) so that get_healthy / get_usable can be decided
//! for every vector of published statuses without running check cycles.
use super::*;
impl<T, C> HealthCheckWrapper<T, C> {
    pub(crate) fn model_publish(&self, idx: usize, status: HealthStatus) {
        if let Ok(g) = self.contexts.try_read() {
            if let Some(c) = g.get(idx) {
                c.set_status(status);
            }
        }
    }
}
