//! C13 (in-flight count exact) — protocol harness for the real
//! `AdaptiveService`: one call with any completion / error / drop point, and
//! readiness against any in-flight count left by other clones.
use crate::service::{AdaptiveError, AdaptiveService};
use crate::verif_kani::svc::{self, mon, Inner, InnerErr};
use crate::ConcurrencyAlgorithm;
use std::sync::Arc;
use std::task::Poll;
use std::time::Duration;
use tower_service::Service;

/// Algorithm with a harness-chosen limit; counts the feedback it receives.
struct FixedAlg {
    limit: usize,
    succ: std::sync::atomic::AtomicUsize,
    fail: std::sync::atomic::AtomicUsize,
}
impl ConcurrencyAlgorithm for FixedAlg {
    fn record_success(&self, _l: Duration) {
        self.succ.fetch_add(1, std::sync::atomic::Ordering::Relaxed);
    }
    fn record_failure(&self) {
        self.fail.fetch_add(1, std::sync::atomic::Ordering::Relaxed);
    }
    fn record_dropped(&self) {}
    fn limit(&self) -> usize {
        self.limit
    }
    fn min_limit(&self) -> usize {
        1
    }
    fn max_limit(&self) -> usize {
        1000
    }
}

#[kani::proof]
#[kani::unwind(5)]
#[kani::stub(std::time::Instant::now, tokio::model::std_instant_now)]
fn in_flight_exact_one_call() {
    let limit: usize = kani::any();
    kani::assume(limit >= 1 && limit <= 1000);
    let alg = Arc::new(FixedAlg { limit, succ: Default::default(), fail: Default::default() });
    let script = svc::any_script();
    let mut s = AdaptiveService::new(Inner::new(script), Arc::clone(&alg));
    // other clones have `others` calls in flight
    let others: usize = kani::any();
    kani::assume(others <= 1000);
    s.model_set_in_flight(others);
    // the cached copy of the limit is STALE: the algorithm is shared with every other service of
    // the layer and may have moved since this service last refreshed its copy
    let stale: usize = kani::any();
    kani::assume(stale >= 1 && stale <= 1000);
    s.model_set_cached_limit(stale);
    let rdy = svc::poll_ready_once(&mut s);
    if others >= limit {
        assert!(rdy.is_pending(), "[C13.not_ready_at_limit] readiness is refused while limit calls are in flight");
        assert!(mon().ready_polls == 0, "[C13.no_inner_poll_at_limit] the inner service is not asked when at the limit");
        return;
    }
    assert!(matches!(rdy, Poll::Ready(Ok(()))), "[C13.ready_below_limit] readiness is never refused while fewer than limit calls are in flight (inner ready)");
    assert!(s.in_flight() == others, "[C13.ready_reserves_nothing] reporting readiness does not count as a call in flight (a Ready that is never followed by a call leaks nothing)");
    let req: u32 = kani::any();
    let mut fut = Some(s.call(req));
    assert!(s.in_flight() == others + 1, "[C13.counts_on_call] a call counts as in flight from call()");
    assert!(mon().calls == 1 && mon().last_req == req && mon().unready_calls == 0, "[C20.adaptive_forwards] forwarded once, unchanged, to the instance that reported ready");
    let mut done = None;
    let mut step = 0;
    while step < 3 {
        if done.is_some() || fut.is_none() {
            break;
        }
        if kani::any() {
            fut = None; // cancellation
            break;
        }
        tokio::model::advance(Duration::new(kani::any::<u8>() as u64, 0));
        if let Poll::Ready(r) = svc::poll_once(std::pin::Pin::new(fut.as_mut().unwrap())) {
            done = Some(r);
            fut = None;
        } else {
            assert!(s.in_flight() == others + 1, "[C13.counts_while_running] a running call stays counted");
        }
        step += 1;
    }
    drop(fut);
    assert!(s.in_flight() == others, "[C13.in_flight_exact] a call stops counting as in flight when it completes, fails or is dropped");
    assert!(mon().live == 0, "[C13.inner_gone] the inner future does not outlive the call");
    let (sc, fl) = (alg.succ.load(std::sync::atomic::Ordering::Relaxed), alg.fail.load(std::sync::atomic::Ordering::Relaxed));
    match done {
        Some(Ok(v)) => assert!(script.outcomes[0] == Ok(v) && sc == 1 && fl == 0, "[C20.adaptive_response_unchanged] response unchanged; one success recorded"),
        Some(Err(AdaptiveError::Service(InnerErr(e)))) => assert!(script.outcomes[0] == Err(e) && sc == 0 && fl == 1, "[C20.adaptive_error_unchanged] error unchanged in the Service variant; one failure recorded"),
        Some(Err(AdaptiveError::LimitReached)) => assert!(false, "[C13.no_spurious_limit_error] LimitReached is never produced for an admitted call"),
        None => assert!(sc == 0 && fl == 0, "[C13.dropped_no_feedback] a dropped call records neither success nor failure"),
    }
    kani::cover!(done.is_none() && mon().dropped_unfinished == 1, "dropped while running");
    kani::cover!(matches!(done, Some(Ok(_))), "completed ok");
    std::mem::forget(s);
}

/// C20 readiness clause for the adaptive limiter below its limit: see svc::check_readiness_passthrough.
#[kani::proof]
#[kani::unwind(4)]
#[kani::stub(std::time::Instant::now, tokio::model::std_instant_now)]
fn readiness_passthrough_below_limit() {
    let alg = Arc::new(FixedAlg { limit: 3, succ: Default::default(), fail: Default::default() });
    let mut s = AdaptiveService::new(Inner::new(svc::any_script()), Arc::clone(&alg));
    svc::check_readiness_passthrough(&mut s);
    assert!(s.in_flight() == 0, "[C13.ready_reserves_nothing] a refused or failed readiness poll counts nothing as in flight");
    std::mem::forget(s);
}
