//! In-crate Kani harnesses for tower-resilience-adaptive.
pub mod env;
pub mod svc;
pub mod c13;
