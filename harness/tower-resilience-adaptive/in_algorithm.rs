//! C13 (limit stays within [min,max]) — Vegas and the Aimd wrapper, child module
//! of `algorithm`.  One step from an ARBITRARY internal state (limit in
//! [min,max], any RTT statistics, any sample count) = every feedback history
//! and every interleaving (each operation stores the limit once, computed from
//! values it loaded; any loaded value is covered by the arbitrary pre-state).
use super::*;

fn any_vegas() -> (Vegas, usize, usize) {
    let min: usize = kani::any();
    let max: usize = kani::any();
    kani::assume(min <= max && max <= (1usize << 32));
    let v = Vegas::new(kani::any(), min, max, kani::any(), kani::any());
    assert!(v.limit() >= min && v.limit() <= max, "[C13.vegas_initial_clamped] the initial limit is clamped into [min,max]");
    let l: usize = kani::any();
    kani::assume(l >= min && l <= max);
    v.limit.store(l, Ordering::Relaxed);
    v.min_rtt_nanos.store(kani::any(), Ordering::Relaxed);
    v.smoothed_rtt_nanos.store(kani::any(), Ordering::Relaxed);
    v.sample_count.store(kani::any(), Ordering::Relaxed);
    (v, min, max)
}

#[kani::proof]
#[kani::unwind(4)]
fn vegas_limit_in_bounds_failure() {
    let (v, min, max) = any_vegas();
    let before = v.limit();
    v.record_failure();
    let l = v.limit();
    assert!(l >= min && l <= max, "[C13.vegas_limit_bounds] the Vegas limit stays within [min,max]");
    assert!(l <= before, "[C13.vegas_failure_never_increases] a failure never raises the limit");
    v.record_dropped();
    assert!(v.limit() == l, "[C13.vegas_dropped_neutral] dropped requests do not move the limit");
}

#[kani::proof]
#[kani::unwind(4)]
fn vegas_limit_in_bounds_adjust() {
    let (v, min, max) = any_vegas();
    let before = v.limit();
    v.adjust_limit();
    let l = v.limit();
    assert!(l >= min && l <= max, "[C13.vegas_limit_bounds] the Vegas limit stays within [min,max]");
    assert!(l + 1 >= before && l <= before + 1, "[C13.vegas_unit_steps] Vegas moves the limit by at most one per sample");
    kani::cover!(l == before + 1, "increase reachable");
    kani::cover!(l + 1 == before, "decrease reachable");
}

#[kani::proof]
#[kani::unwind(4)]
fn vegas_update_rtt_keeps_limit() {
    let (v, _min, _max) = any_vegas();
    let before = v.limit();
    let secs: u64 = kani::any();
    let nanos: u32 = kani::any();
    kani::assume(secs <= 3600 && nanos < 1_000_000_000);
    v.update_rtt(Duration::new(secs, nanos));
    assert!(v.limit() == before, "[C13.vegas_rtt_update_neutral] RTT bookkeeping does not touch the limit");
}

#[kani::proof]
fn aimd_wrapper_limit_in_bounds() {
    let min: usize = kani::any();
    let max: usize = kani::any();
    let df: f64 = kani::any();
    kani::assume(min <= max && max <= (1usize << 32) && df >= 0.0 && df <= 1.0);
    let a = Aimd::builder()
        .initial_limit(kani::any())
        .min_limit(min)
        .max_limit(max)
        .increase_by(kani::any())
        .decrease_factor(df)
        .latency_threshold(Duration::new(kani::any::<u8>() as u64, 0))
        .build();
    let op: u8 = kani::any();
    match op % 3 {
        0 => a.record_success(Duration::new(kani::any::<u8>() as u64, 0)),
        1 => a.record_failure(),
        _ => a.record_dropped(),
    }
    assert!(a.limit() >= min && a.limit() <= max, "[C13.aimd_alg_limit_bounds] the AIMD algorithm's limit stays within [min,max]");
    assert!(a.min_limit() == min && a.max_limit() == max, "[C13.aimd_alg_reports_bounds] configured bounds are reported");
}
