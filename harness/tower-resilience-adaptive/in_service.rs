//! Child module of `service`: harness access to the private in-flight counter
//! (to model calls in flight on other clones).
use super::*;
impl<S, A> AdaptiveService<S, A> {
    pub(crate) fn model_set_in_flight(&self, n: usize) {
        self.in_flight.store(n, Ordering::Relaxed);
    }
}
