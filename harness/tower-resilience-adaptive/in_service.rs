//! Child module of `service`: harness access to the private in-flight counter
//! (to model calls in flight on other clones).
use super::*;
impl<S, A> AdaptiveService<S, A> {
    pub(crate) fn model_set_in_flight(&self, n: usize) {
        self.in_flight.store(n, Ordering::Relaxed);
    }
    /// The service's cached copy of the limit as it was when the service last refreshed it
    /// (the algorithm, shared with other services of the layer, may have moved since).
    pub(crate) fn model_set_cached_limit(&self, n: usize) {
        self.current_limit.store(n, Ordering::Relaxed);
    }
}
