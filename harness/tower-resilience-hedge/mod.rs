//! In-crate Kani harnesses for tower-resilience-hedge.
pub mod env;
pub mod svc;
pub mod c12;
