//! C12 — hedging starts a bounded number of attempts and fails only when all
//! have failed.  One hedged call through the real `Hedge::call` /
//! `execute_with_hedging` (spawn + mpsc + biased select! + sleep, all from the
//! tokio model); the harness is the runtime: before each poll of the call it
//! advances the clock arbitrarily and runs the spawned attempt tasks.
use crate::config::{HedgeConfig, HedgeDelay};
use crate::error::HedgeError;
use crate::verif_kani::svc::{self, mon, Inner, InnerErr};
use crate::Hedge;
use std::panic::catch_unwind;
use std::task::Poll;
use std::time::Duration;
use tokio::model::{self, st};
use tower::Service;

fn any_millis(max_ms: u64) -> Duration {
    let secs: u64 = kani::any();
    let ms: u32 = kani::any();
    kani::assume(ms < 1000 && secs <= max_ms / 1000 && (secs < max_ms / 1000 || (ms as u64) <= max_ms % 1000));
    Duration::new(secs, ms * 1_000_000)
}

/// `HedgeDelay::get_delay` is replaced by a function returning a CONSTANT per harness: read
/// from the heap-allocated config its result is symbolic for CBMC, which then explores the
/// latency-mode select loop AND the parallel-mode branch in every harness (4 M symex steps for
/// one poll).  Latency mode uses a fixed 5 s delay; the clock advances stay symbolic, so every
/// ordering of "attempt finished / delay elapsed / caller polled" is still covered.
const LATENCY_DELAY: Duration = Duration::from_secs(5);
fn delay_latency(_d: &HedgeDelay, _attempt: usize) -> Option<Duration> {
    Some(LATENCY_DELAY)
}
fn delay_parallel(_d: &HedgeDelay, _attempt: usize) -> Option<Duration> {
    Some(Duration::ZERO)
}

/// mode: 0 = latency mode (fixed positive delay), 1 = parallel (Immediate), 2 = zero fixed delay
fn one_call(max_attempts: usize, mode: u8, steps: usize) {
    let delay = match mode {
        0 => LATENCY_DELAY,
        _ => Duration::ZERO,
    };
    let cfg = HedgeConfig {
        name: None,
        max_hedged_attempts: max_attempts,
        delay: match mode { 0 => HedgeDelay::Fixed(delay), 1 => HedgeDelay::Immediate, _ => HedgeDelay::Fixed(Duration::ZERO) },
        listeners: tower_resilience_core::EventListeners::new(),
    };
    let mut script = svc::any_script();
    script.never = false;
    script.use_lats = true;
    script.lats = [any_millis(60_000), any_millis(60_000), any_millis(60_000), any_millis(60_000)];
    let mut h = Hedge::new(Inner::new(script), cfg);
    let req: u32 = kani::any();
    let _ = svc::poll_ready_once(&mut h);
    let mut fut = h.call(req);
    let mut out = None;
    let mut ok_delivered_before_poll;
    let mut step = 0;
    while step < steps {
        if step > 0 {
            model::advance(any_millis(60_000));
        }
        // the runtime runs every live attempt task once per round (WHEN an attempt finishes is
        // still arbitrary: its latency is symbolic; letting the solver also choose which tasks
        // run in each round did not finish within 50 minutes)
        let mut t = 0;
        while t < max_attempts {
            model::poll_task(t);
            t += 1;
        }
        // has some attempt already delivered a success?
        ok_delivered_before_poll = false;
        let mut k = 0;
        while k < max_attempts {
            if (mon().completed_mask >> k) & 1 == 1 && script.outcomes[k].is_ok() {
                ok_delivered_before_poll = true;
            }
            k += 1;
        }
        let p = svc::poll_once(fut.as_mut());
        if let Poll::Ready(r) = p {
            out = Some(r);
            break;
        }
        assert!(!ok_delivered_before_poll, "[C12.first_success_wins_promptly] the call resolves as soon as a successful attempt's response is available");
        step += 1;
    }
    // ---- bounded number of attempts, spacing
    assert!(st().spawned as usize <= max_attempts && mon().calls as usize <= max_attempts, "[C12.bounded_attempts] at most max_hedged_attempts inner calls are started");
    assert!(mon().calls == 0 || mon().last_req == req, "[C12.same_request] every attempt carries the request");
    assert!((mon().unready_calls as usize) < max_attempts, "[C20.hedge_primary_ready] the primary attempt goes to the instance on which readiness was observed");
    let mut k = 1;
    while k < st().spawned as usize {
        if mode == 0 {
            assert!(st().spawn_times[k] >= st().spawn_times[k - 1] + delay, "[C12.hedge_after_delay] a further attempt starts no earlier than the configured delay after the previous one");
        } else {
            assert!(st().spawn_times[k] == st().spawn_times[0], "[C12.parallel_all_at_once] in parallel mode all attempts start at once");
        }
        k += 1;
    }
    if mode != 0 && st().spawned > 0 {
        assert!(st().spawned as usize == max_attempts, "[C12.parallel_all_at_once] in parallel mode all attempts start at once");
    }
    if let Some(r) = &out {
        match r {
            Ok(v) => {
                let mut found = false;
                let mut k = 0;
                while k < max_attempts {
                    if (mon().completed_mask >> k) & 1 == 1 && script.outcomes[k] == Ok(*v) {
                        found = true;
                    }
                    k += 1;
                }
                assert!(found, "[C12.returns_a_successful_attempt] the response is that of an attempt that succeeded");
            }
            Err(HedgeError::AllAttemptsFailed(InnerErr(e))) => {
                assert!(mon().calls as usize == max_attempts, "[C12.fails_only_after_all_started] all-attempts-failed only when every attempt has been started");
                let mut k = 0;
                let mut any_e = false;
                while k < max_attempts {
                    assert!((mon().completed_mask >> k) & 1 == 1 && script.outcomes[k].is_err(), "[C12.fails_only_when_all_failed] all-attempts-failed only when every attempt has failed");
                    if script.outcomes[k] == Err(*e) {
                        any_e = true;
                    }
                    k += 1;
                }
                assert!(any_e, "[C12.error_is_an_attempts_error] the reported error is one of the attempts' errors");
            }
            Err(HedgeError::Inner(_)) => assert!(false, "[C12.no_inner_variant] a hedged call fails with AllAttemptsFailed"),
        }
    }
    kani::cover!(matches!(out, Some(Err(HedgeError::AllAttemptsFailed(_)))), "all attempts failed");
    kani::cover!(matches!(out, Some(Ok(_))) && st().spawned as usize == max_attempts, "success with all attempts started");
    drop(fut);
    model::shutdown();
    std::mem::forget(h);
}

// ---------------------------------------------------------------------------
// Scenario harnesses (quick tier): fixed schedule and latencies, SYMBOLIC outcomes.
// ---------------------------------------------------------------------------
fn mk_scenario(max_attempts: usize, latency_mode: bool, lats: [u64; 4]) -> (Hedge<Inner>, svc::Script) {
    let cfg = HedgeConfig {
        name: None,
        max_hedged_attempts: max_attempts,
        delay: if latency_mode { HedgeDelay::Fixed(LATENCY_DELAY) } else { HedgeDelay::Immediate },
        listeners: tower_resilience_core::EventListeners::new(),
    };
    let mut script = svc::any_script();
    script.never = false;
    script.use_lats = true;
    script.lats = [Duration::from_secs(lats[0]), Duration::from_secs(lats[1]), Duration::from_secs(lats[2]), Duration::from_secs(lats[3])];
    (Hedge::new(Inner::new(script), cfg), script)
}
fn is_ok_of(r: &Poll<Result<u32, HedgeError<InnerErr>>>, v: Result<u32, u32>) -> bool {
    matches!((r, v), (Poll::Ready(Ok(x)), Ok(y)) if *x == y)
}

/// Latency mode, 2 attempts, primary slower (7 s) than delay (5 s) + hedge (3 s):
/// t=0 primary starts; t=5 hedge starts; t=7 primary finishes; t=8 hedge finishes.
/// - primary Ok  => resolved at t=7 with the primary's response;
/// - primary Err => still PENDING at t=7 (the hedge is running), resolved at t=8 with the
///   hedge's response if it succeeded, else AllAttemptsFailed(primary error).
#[kani::proof]
#[kani::unwind(7)]
#[kani::stub(std::time::Instant::now, tokio::model::std_instant_now)]
#[kani::stub(catch_unwind, crate::verif_kani::env::catch_unwind_stub)]
#[kani::stub(HedgeDelay::get_delay, delay_latency)]
fn scenario_primary_fails_while_hedge_runs() {
    let (mut h, script) = mk_scenario(2, true, [7, 3, 0, 0]);
    let req: u32 = kani::any();
    let _ = svc::poll_ready_once(&mut h);
    let mut fut = h.call(req);
    assert!(svc::poll_once(fut.as_mut()).is_pending() && st().spawned == 1, "[C12.primary_first] the call starts with the primary attempt only");
    model::poll_task(0);
    assert!(mon().calls == 1 && mon().last_req == req && mon().unready_calls == 0, "[C20.hedge_primary_ready] the primary attempt carries the request to the instance that reported ready");
    model::advance(Duration::from_secs(4));
    model::poll_task(0);
    assert!(svc::poll_once(fut.as_mut()).is_pending() && st().spawned == 1, "[C12.hedge_after_delay] no hedge before the delay has elapsed");
    model::advance(Duration::from_secs(1));
    model::poll_task(0);
    assert!(svc::poll_once(fut.as_mut()).is_pending() && st().spawned == 2, "[C12.hedge_after_delay] the hedge is started when the delay has elapsed");
    model::poll_task(1);
    assert!(mon().calls == 2 && mon().last_req == req, "[C12.same_request] the hedge carries the same request");
    model::advance(Duration::from_secs(2)); // t = 7: primary finishes
    model::poll_task(0);
    model::poll_task(1);
    let p = svc::poll_once(fut.as_mut());
    if script.outcomes[0].is_ok() {
        assert!(is_ok_of(&p, script.outcomes[0]), "[C12.first_success_wins_promptly] the primary's success resolves the call as soon as it is available");
    } else {
        assert!(p.is_pending(), "[C12.fails_only_when_all_failed] a failed primary does not fail the call while the hedge is still running");
        model::advance(Duration::from_secs(1)); // t = 8: hedge finishes
        model::poll_task(1);
        let p = svc::poll_once(fut.as_mut());
        match script.outcomes[1] {
            Ok(_) => assert!(is_ok_of(&p, script.outcomes[1]), "[C12.returns_a_successful_attempt] the hedge's success is the response"),
            Err(_) => assert!(matches!(p, Poll::Ready(Err(HedgeError::AllAttemptsFailed(InnerErr(e)))) if Err(e) == script.outcomes[0]),
                "[C12.fails_only_when_all_failed] all-attempts-failed (with the primary's error) once both attempts have failed"),
        }
    }
    assert!(st().spawned == 2 && mon().calls == 2, "[C12.bounded_attempts] at most max_hedged_attempts inner calls are started");
    std::mem::forget(fut);
    std::mem::forget(h);
}

/// Latency mode: a primary that succeeds or fails BEFORE the delay (3 s < 5 s).
/// Success => resolved at once, no hedge ever started.  Failure => the hedge is still
/// started at the delay and decides the call.
#[kani::proof]
#[kani::unwind(7)]
#[kani::stub(std::time::Instant::now, tokio::model::std_instant_now)]
#[kani::stub(catch_unwind, crate::verif_kani::env::catch_unwind_stub)]
#[kani::stub(HedgeDelay::get_delay, delay_latency)]
fn scenario_primary_finishes_before_delay() {
    let (mut h, script) = mk_scenario(2, true, [3, 1, 0, 0]);
    let _ = svc::poll_ready_once(&mut h);
    let mut fut = h.call(kani::any());
    assert!(svc::poll_once(fut.as_mut()).is_pending(), "[C12.primary_first] pending while the primary runs");
    model::poll_task(0);
    model::advance(Duration::from_secs(3));
    model::poll_task(0);
    let p = svc::poll_once(fut.as_mut());
    if script.outcomes[0].is_ok() {
        assert!(is_ok_of(&p, script.outcomes[0]) && st().spawned == 1 && mon().calls == 1, "[C12.no_hedge_after_success] a primary that succeeds before the delay resolves the call and no hedge is started");
    } else {
        assert!(p.is_pending() && st().spawned == 1, "[C12.fails_only_after_all_started] a primary failure before the delay does not fail the call: the hedge has not been started yet");
        model::advance(Duration::from_secs(2)); // t = 5
        assert!(svc::poll_once(fut.as_mut()).is_pending() && st().spawned == 2, "[C12.hedge_after_delay] the hedge is started when the delay has elapsed");
        model::poll_task(1);
        model::advance(Duration::from_secs(1));
        model::poll_task(1);
        let p = svc::poll_once(fut.as_mut());
        match script.outcomes[1] {
            Ok(_) => assert!(is_ok_of(&p, script.outcomes[1]), "[C12.returns_a_successful_attempt] the hedge's success is the response"),
            Err(_) => assert!(matches!(p, Poll::Ready(Err(HedgeError::AllAttemptsFailed(InnerErr(e)))) if Err(e) == script.outcomes[0]),
                "[C12.fails_only_when_all_failed] all-attempts-failed once both attempts have failed"),
        }
    }
    std::mem::forget(fut);
    std::mem::forget(h);
}

/// Parallel mode, 2 attempts (2 s and 4 s): both start at once; the first success wins;
/// failure only after both failed.
#[kani::proof]
#[kani::unwind(7)]
#[kani::stub(std::time::Instant::now, tokio::model::std_instant_now)]
#[kani::stub(catch_unwind, crate::verif_kani::env::catch_unwind_stub)]
#[kani::stub(HedgeDelay::get_delay, delay_parallel)]
fn scenario_parallel_two_attempts() {
    let (mut h, script) = mk_scenario(2, false, [2, 4, 0, 0]);
    let req: u32 = kani::any();
    let _ = svc::poll_ready_once(&mut h);
    let mut fut = h.call(req);
    assert!(svc::poll_once(fut.as_mut()).is_pending() && st().spawned == 2 && st().spawn_times[0] == st().spawn_times[1], "[C12.parallel_all_at_once] in parallel mode all attempts start at once");
    model::poll_task(0);
    model::poll_task(1);
    assert!(mon().calls == 2 && mon().last_req == req, "[C12.same_request] every attempt carries the request");
    model::advance(Duration::from_secs(2));
    model::poll_task(0);
    model::poll_task(1);
    let p = svc::poll_once(fut.as_mut());
    if script.outcomes[0].is_ok() {
        assert!(is_ok_of(&p, script.outcomes[0]), "[C12.first_success_wins_promptly] the first success resolves the call");
    } else {
        assert!(p.is_pending(), "[C12.fails_only_when_all_failed] one failure does not fail the call while another attempt runs");
        model::advance(Duration::from_secs(2));
        model::poll_task(1);
        let p = svc::poll_once(fut.as_mut());
        match script.outcomes[1] {
            Ok(_) => assert!(is_ok_of(&p, script.outcomes[1]), "[C12.returns_a_successful_attempt] the second attempt's success is the response"),
            Err(_) => assert!(matches!(p, Poll::Ready(Err(HedgeError::AllAttemptsFailed(InnerErr(e)))) if Err(e) == script.outcomes[0]),
                "[C12.fails_only_when_all_failed] all-attempts-failed once both attempts have failed"),
        }
    }
    assert!(st().spawned == 2, "[C12.bounded_attempts] at most max_hedged_attempts inner calls are started");
    std::mem::forget(fut);
    std::mem::forget(h);
}

// ---------------------------------------------------------------------------
// Short scenarios (<= 3 polls of the call): the longer ones above did not finish in 50 min.
// ---------------------------------------------------------------------------
/// Parallel mode, both attempts complete immediately: two polls of the call.
#[kani::proof]
#[kani::unwind(7)]
#[kani::stub(std::time::Instant::now, tokio::model::std_instant_now)]
#[kani::stub(catch_unwind, crate::verif_kani::env::catch_unwind_stub)]
#[kani::stub(HedgeDelay::get_delay, delay_parallel)]
fn short_parallel_immediate() {
    let (mut h, script) = mk_scenario(2, false, [0, 0, 0, 0]);
    let req: u32 = kani::any();
    let _ = svc::poll_ready_once(&mut h);
    let mut fut = h.call(req);
    assert!(svc::poll_once(fut.as_mut()).is_pending() && st().spawned == 2 && st().spawn_times[0] == st().spawn_times[1], "[C12.parallel_all_at_once] in parallel mode all attempts start at once");
    model::poll_task(0);
    model::poll_task(1);
    assert!(mon().calls == 2 && mon().last_req == req, "[C12.same_request] every attempt carries the request");
    let p = svc::poll_once(fut.as_mut());
    match (script.outcomes[0], script.outcomes[1]) {
        (Ok(_), _) => assert!(is_ok_of(&p, script.outcomes[0]), "[C12.first_success_wins_promptly] the first delivered success is the response"),
        (Err(_), Ok(_)) => assert!(is_ok_of(&p, script.outcomes[1]), "[C12.returns_a_successful_attempt] a later success still wins over an earlier failure"),
        (Err(e), Err(_)) => assert!(matches!(p, Poll::Ready(Err(HedgeError::AllAttemptsFailed(InnerErr(x)))) if x == e), "[C12.fails_only_when_all_failed] all-attempts-failed (first error) once every attempt has failed"),
    }
    assert!(st().spawned == 2 && mon().calls == 2, "[C12.bounded_attempts] at most max_hedged_attempts inner calls are started");
    std::mem::forget(fut);
    std::mem::forget(h);
}

/// Latency mode, the primary completes immediately (before the delay): success resolves
/// the call with no hedge; failure must NOT fail the call (the hedge has not been started).
#[kani::proof]
#[kani::unwind(7)]
#[kani::stub(std::time::Instant::now, tokio::model::std_instant_now)]
#[kani::stub(catch_unwind, crate::verif_kani::env::catch_unwind_stub)]
#[kani::stub(HedgeDelay::get_delay, delay_latency)]
fn short_latency_primary_immediate() {
    let (mut h, script) = mk_scenario(2, true, [0, 0, 0, 0]);
    let _ = svc::poll_ready_once(&mut h);
    let mut fut = h.call(kani::any());
    assert!(svc::poll_once(fut.as_mut()).is_pending() && st().spawned == 1, "[C12.primary_first] the call starts with the primary attempt only");
    model::poll_task(0);
    let p = svc::poll_once(fut.as_mut());
    if script.outcomes[0].is_ok() {
        assert!(is_ok_of(&p, script.outcomes[0]) && st().spawned == 1, "[C12.no_hedge_after_success] a primary that succeeds before the delay resolves the call and no hedge is started");
    } else {
        assert!(p.is_pending() && st().spawned == 1, "[C12.fails_only_after_all_started] a primary failure before the delay does not fail the call and starts no hedge early");
    }
    std::mem::forget(fut);
    std::mem::forget(h);
}

/// Latency mode, the primary never finishes, the hedge (started at the delay) fails
/// immediately: the call must stay pending, the primary may still succeed.
#[kani::proof]
#[kani::unwind(7)]
#[kani::stub(std::time::Instant::now, tokio::model::std_instant_now)]
#[kani::stub(catch_unwind, crate::verif_kani::env::catch_unwind_stub)]
#[kani::stub(HedgeDelay::get_delay, delay_latency)]
fn short_latency_hedge_fails_primary_running() {
    let (mut h, mut script) = mk_scenario(2, true, [3600, 0, 0, 0]);
    script.outcomes[1] = Err(kani::any());
    svc::mon().script = script;
    let _ = svc::poll_ready_once(&mut h);
    let mut fut = h.call(kani::any());
    assert!(svc::poll_once(fut.as_mut()).is_pending(), "[C12.primary_first] pending while the primary runs");
    model::poll_task(0);
    model::advance(LATENCY_DELAY);
    assert!(svc::poll_once(fut.as_mut()).is_pending() && st().spawned == 2 && st().spawn_times[1] >= st().spawn_times[0] + LATENCY_DELAY, "[C12.hedge_after_delay] the hedge is started when the delay has elapsed, not earlier");
    model::poll_task(1);
    assert!(mon().calls == 2 && mon().completed_mask == 0b10, "hedge failed at once");
    let p = svc::poll_once(fut.as_mut());
    assert!(p.is_pending(), "[C12.fails_only_when_all_failed] a failed hedge does not fail the call while the primary is still running");
    std::mem::forget(fut);
    std::mem::forget(h);
}

/// KNOWN FINDING witness (C20 readiness): hedged attempts are issued on clones that never
/// observed readiness (the primary uses the ready instance).
#[kani::proof]
#[kani::unwind(7)]
#[kani::stub(std::time::Instant::now, tokio::model::std_instant_now)]
#[kani::stub(catch_unwind, crate::verif_kani::env::catch_unwind_stub)]
#[kani::stub(HedgeDelay::get_delay, delay_parallel)]
fn c20_hedges_unready() {
    let cfg = HedgeConfig { name: None, max_hedged_attempts: 2, delay: HedgeDelay::Immediate, listeners: tower_resilience_core::EventListeners::new() };
    let mut script = svc::any_script();
    script.never = true;
    let mut h = Hedge::new(Inner::new(script), cfg);
    let _ = svc::poll_ready_once(&mut h);
    let mut fut = h.call(kani::any());
    let _ = svc::poll_once(fut.as_mut());
    model::poll_task(0);
    model::poll_task(1);
    assert!(mon().calls == 2, "[C12.parallel_all_at_once] in parallel mode all attempts start at once");
    assert!(mon().unready_calls <= 1, "[C20.hedge_primary_ready] the primary attempt goes to the instance on which readiness was observed");
    assert!(mon().unready_calls == 0, "[C20.hedge_attempts_unready] every hedged attempt goes to an instance on which readiness was observed");
    std::mem::forget(fut);
    std::mem::forget(h);
}

/// Fixed-schedule variants (the general harness above, with the solver choosing every clock
/// advance, did not finish in 50 minutes even for two attempts): the clock moves in the
/// fixed steps given by `advances`, every live attempt task runs once per round, and the
/// per-attempt latencies (multiples of one second up to 12 s) and outcomes stay symbolic.
/// All orderings of "attempt k finished / hedge delay elapsed / caller polled" at second
/// granularity are covered; the assertions are those of `one_call`.
fn fixed_schedule(max_attempts: usize, mode: u8, advances: &[u64]) {
    let delay = if mode == 0 { LATENCY_DELAY } else { Duration::ZERO };
    let cfg = HedgeConfig {
        name: None,
        max_hedged_attempts: max_attempts,
        delay: if mode == 0 { HedgeDelay::Fixed(delay) } else { HedgeDelay::Immediate },
        listeners: tower_resilience_core::EventListeners::new(),
    };
    let mut script = svc::any_script();
    script.never = false;
    script.use_lats = true;
    let mut k = 0;
    while k < 4 {
        let s: u8 = kani::any();
        kani::assume(s <= 12);
        script.lats[k] = Duration::from_secs(s as u64);
        k += 1;
    }
    let mut h = Hedge::new(Inner::new(script), cfg);
    let req: u32 = kani::any();
    let _ = svc::poll_ready_once(&mut h);
    let mut fut = h.call(req);
    let mut out = None;
    let mut round = 0;
    while round < advances.len() {
        model::advance(Duration::from_secs(advances[round]));
        let mut t = 0;
        while t < max_attempts {
            model::poll_task(t);
            t += 1;
        }
        let mut ok_before = false;
        let mut k = 0;
        while k < max_attempts {
            if (mon().completed_mask >> k) & 1 == 1 && script.outcomes[k].is_ok() {
                ok_before = true;
            }
            k += 1;
        }
        if let Poll::Ready(r) = svc::poll_once(fut.as_mut()) {
            out = Some(r);
            break;
        }
        assert!(!ok_before, "[C12.first_success_wins_promptly] the call resolves as soon as a successful attempt's response is available");
        round += 1;
    }
    assert!(st().spawned as usize <= max_attempts && mon().calls as usize <= max_attempts, "[C12.bounded_attempts] at most max_hedged_attempts inner calls are started");
    let mut k = 1;
    while k < st().spawned as usize {
        if mode == 0 {
            assert!(st().spawn_times[k] >= st().spawn_times[k - 1] + delay, "[C12.hedge_after_delay] a further attempt starts no earlier than the configured delay after the previous one");
        } else {
            assert!(st().spawn_times[k] == st().spawn_times[0], "[C12.parallel_all_at_once] in parallel mode all attempts start at once");
        }
        k += 1;
    }
    assert!((mon().unready_calls as usize) < max_attempts, "[C20.hedge_primary_ready] the primary attempt goes to the instance on which readiness was observed");
    if let Some(r) = &out {
        match r {
            Ok(v) => {
                let mut found = false;
                let mut k = 0;
                while k < max_attempts {
                    if (mon().completed_mask >> k) & 1 == 1 && script.outcomes[k] == Ok(*v) {
                        found = true;
                    }
                    k += 1;
                }
                assert!(found, "[C12.returns_a_successful_attempt] the response is that of an attempt that succeeded");
            }
            Err(HedgeError::AllAttemptsFailed(InnerErr(e))) => {
                assert!(mon().calls as usize == max_attempts, "[C12.fails_only_after_all_started] all-attempts-failed only when every attempt has been started");
                let mut k = 0;
                let mut any_e = false;
                while k < max_attempts {
                    assert!((mon().completed_mask >> k) & 1 == 1 && script.outcomes[k].is_err(), "[C12.fails_only_when_all_failed] all-attempts-failed only when every attempt has failed");
                    if script.outcomes[k] == Err(*e) {
                        any_e = true;
                    }
                    k += 1;
                }
                assert!(any_e, "[C12.error_is_an_attempts_error] the reported error is one of the attempts' errors");
            }
            Err(HedgeError::Inner(_)) => assert!(false, "[C12.no_inner_variant] a hedged call fails with AllAttemptsFailed"),
        }
    }
    kani::cover!(matches!(out, Some(Err(HedgeError::AllAttemptsFailed(_)))), "all attempts failed");
    kani::cover!(matches!(out, Some(Ok(_))) && st().spawned as usize == max_attempts, "success with all attempts started");
    std::mem::forget(fut);
    std::mem::forget(h);
}

#[kani::proof]
#[kani::unwind(7)]
#[kani::stub(std::time::Instant::now, tokio::model::std_instant_now)]
#[kani::stub(catch_unwind, crate::verif_kani::env::catch_unwind_stub)]
#[kani::stub(HedgeDelay::get_delay, delay_latency)]
fn latency_mode_fixed_schedule() { fixed_schedule(2, 0, &[0, 5, 4, 8]) }

#[kani::proof]
#[kani::unwind(7)]
#[kani::stub(std::time::Instant::now, tokio::model::std_instant_now)]
#[kani::stub(catch_unwind, crate::verif_kani::env::catch_unwind_stub)]
#[kani::stub(HedgeDelay::get_delay, delay_parallel)]
fn parallel_mode_fixed_schedule() { fixed_schedule(2, 1, &[0, 0, 6, 7]) }

macro_rules! proofs { ($($name:ident = ($m:expr, $mode:expr, $steps:expr, $unwind:expr, $stub:path)),*) => {$(
    #[kani::proof]
    #[kani::unwind($unwind)]
    #[kani::stub(std::time::Instant::now, tokio::model::std_instant_now)]
    #[kani::stub(catch_unwind, crate::verif_kani::env::catch_unwind_stub)]
    #[kani::stub(HedgeDelay::get_delay, $stub)]
    fn $name() { one_call($m, $mode, $steps) }
)*}}
proofs!(latency_mode_two_attempts = (2, 0, 4, 7, delay_latency), parallel_mode_two_attempts = (2, 1, 3, 7, delay_parallel), single_attempt = (1, 0, 3, 7, delay_latency),
        latency_mode_three_attempts = (3, 0, 5, 8, delay_latency));
