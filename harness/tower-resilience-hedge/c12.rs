//! C12 — hedging starts a bounded number of attempts and fails only when all
//! have failed.  One hedged call through the real `Hedge::call` /
//! `execute_with_hedging` (spawn + mpsc + biased select! + sleep, all from the
//! tokio model); the harness is the runtime: before each poll of the call it
//! advances the clock arbitrarily and runs the spawned attempt tasks.
use crate::config::{HedgeConfig, HedgeDelay};
use crate::error::HedgeError;
use crate::verif_kani::svc::{self, mon, Inner, InnerErr};
use crate::Hedge;
use std::panic::catch_unwind;
use std::task::Poll;
use std::time::Duration;
use tokio::model::{self, st};
use tower::Service;

fn any_millis(max_ms: u64) -> Duration {
    let secs: u64 = kani::any();
    let ms: u32 = kani::any();
    kani::assume(ms < 1000 && secs <= max_ms / 1000 && (secs < max_ms / 1000 || (ms as u64) <= max_ms % 1000));
    Duration::new(secs, ms * 1_000_000)
}

/// `HedgeDelay::get_delay` is replaced by a function returning a CONSTANT per harness: read
/// from the heap-allocated config its result is symbolic for CBMC, which then explores the
/// latency-mode select loop AND the parallel-mode branch in every harness (4 M symex steps for
/// one poll).  Latency mode uses a fixed 5 s delay; the clock advances stay symbolic, so every
/// ordering of "attempt finished / delay elapsed / caller polled" is still covered.
const LATENCY_DELAY: Duration = Duration::from_secs(5);
fn delay_latency(_d: &HedgeDelay, _attempt: usize) -> Option<Duration> {
    Some(LATENCY_DELAY)
}
fn delay_parallel(_d: &HedgeDelay, _attempt: usize) -> Option<Duration> {
    Some(Duration::ZERO)
}

/// mode: 0 = latency mode (fixed positive delay), 1 = parallel (Immediate), 2 = zero fixed delay
fn one_call(max_attempts: usize, mode: u8, steps: usize) {
    let delay = match mode {
        0 => LATENCY_DELAY,
        _ => Duration::ZERO,
    };
    let cfg = HedgeConfig {
        name: None,
        max_hedged_attempts: max_attempts,
        delay: match mode { 0 => HedgeDelay::Fixed(delay), 1 => HedgeDelay::Immediate, _ => HedgeDelay::Fixed(Duration::ZERO) },
        listeners: tower_resilience_core::EventListeners::new(),
    };
    let mut script = svc::any_script();
    script.never = false;
    script.use_lats = true;
    script.lats = [any_millis(60_000), any_millis(60_000), any_millis(60_000), any_millis(60_000)];
    let mut h = Hedge::new(Inner::new(script), cfg);
    let req: u32 = kani::any();
    let _ = svc::poll_ready_once(&mut h);
    let mut fut = h.call(req);
    let mut out = None;
    let mut ok_delivered_before_poll;
    let mut step = 0;
    while step < steps {
        if step > 0 {
            model::advance(any_millis(60_000));
        }
        // the runtime runs every live attempt task once per round (WHEN an attempt finishes is
        // still arbitrary: its latency is symbolic; letting the solver also choose which tasks
        // run in each round did not finish within 50 minutes)
        let mut t = 0;
        while t < max_attempts {
            model::poll_task(t);
            t += 1;
        }
        // has some attempt already delivered a success?
        ok_delivered_before_poll = false;
        let mut k = 0;
        while k < max_attempts {
            if (mon().completed_mask >> k) & 1 == 1 && script.outcomes[k].is_ok() {
                ok_delivered_before_poll = true;
            }
            k += 1;
        }
        let p = svc::poll_once(fut.as_mut());
        if let Poll::Ready(r) = p {
            out = Some(r);
            break;
        }
        assert!(!ok_delivered_before_poll, "[C12.first_success_wins_promptly] the call resolves as soon as a successful attempt's response is available");
        step += 1;
    }
    // ---- bounded number of attempts, spacing
    assert!(st().spawned as usize <= max_attempts && mon().calls as usize <= max_attempts, "[C12.bounded_attempts] at most max_hedged_attempts inner calls are started");
    assert!(mon().calls == 0 || mon().last_req == req, "[C12.same_request] every attempt carries the request");
    assert!((mon().unready_calls as usize) < max_attempts, "[C20.hedge_primary_ready] the primary attempt goes to the instance on which readiness was observed");
    let mut k = 1;
    while k < st().spawned as usize {
        if mode == 0 {
            assert!(st().spawn_times[k] >= st().spawn_times[k - 1] + delay, "[C12.hedge_after_delay] a further attempt starts no earlier than the configured delay after the previous one");
        } else {
            assert!(st().spawn_times[k] == st().spawn_times[0], "[C12.parallel_all_at_once] in parallel mode all attempts start at once");
        }
        k += 1;
    }
    if mode != 0 && st().spawned > 0 {
        assert!(st().spawned as usize == max_attempts, "[C12.parallel_all_at_once] in parallel mode all attempts start at once");
    }
    if let Some(r) = &out {
        match r {
            Ok(v) => {
                let mut found = false;
                let mut k = 0;
                while k < max_attempts {
                    if (mon().completed_mask >> k) & 1 == 1 && script.outcomes[k] == Ok(*v) {
                        found = true;
                    }
                    k += 1;
                }
                assert!(found, "[C12.returns_a_successful_attempt] the response is that of an attempt that succeeded");
            }
            Err(HedgeError::AllAttemptsFailed(InnerErr(e))) => {
                assert!(mon().calls as usize == max_attempts, "[C12.fails_only_after_all_started] all-attempts-failed only when every attempt has been started");
                let mut k = 0;
                let mut any_e = false;
                while k < max_attempts {
                    assert!((mon().completed_mask >> k) & 1 == 1 && script.outcomes[k].is_err(), "[C12.fails_only_when_all_failed] all-attempts-failed only when every attempt has failed");
                    if script.outcomes[k] == Err(*e) {
                        any_e = true;
                    }
                    k += 1;
                }
                assert!(any_e, "[C12.error_is_an_attempts_error] the reported error is one of the attempts' errors");
            }
            Err(HedgeError::Inner(_)) => assert!(false, "[C12.no_inner_variant] a hedged call fails with AllAttemptsFailed"),
        }
    }
    kani::cover!(matches!(out, Some(Err(HedgeError::AllAttemptsFailed(_)))), "all attempts failed");
    kani::cover!(matches!(out, Some(Ok(_))) && st().spawned as usize == max_attempts, "success with all attempts started");
    drop(fut);
    model::shutdown();
    std::mem::forget(h);
}

/// KNOWN FINDING witness (C20 readiness): hedged attempts are issued on clones that never
/// observed readiness (the primary uses the ready instance).
#[kani::proof]
#[kani::unwind(7)]
#[kani::stub(std::time::Instant::now, tokio::model::std_instant_now)]
#[kani::stub(catch_unwind, crate::verif_kani::env::catch_unwind_stub)]
#[kani::stub(HedgeDelay::get_delay, delay_parallel)]
fn c20_hedges_unready() {
    let cfg = HedgeConfig { name: None, max_hedged_attempts: 2, delay: HedgeDelay::Immediate, listeners: tower_resilience_core::EventListeners::new() };
    let mut script = svc::any_script();
    script.never = true;
    let mut h = Hedge::new(Inner::new(script), cfg);
    let _ = svc::poll_ready_once(&mut h);
    let mut fut = h.call(kani::any());
    let _ = svc::poll_once(fut.as_mut());
    model::poll_task(0);
    model::poll_task(1);
    assert!(mon().calls == 2, "[C12.parallel_all_at_once] in parallel mode all attempts start at once");
    assert!(mon().unready_calls <= 1, "[C20.hedge_primary_ready] the primary attempt goes to the instance on which readiness was observed");
    assert!(mon().unready_calls == 0, "[C20.hedge_attempts_unready] every hedged attempt goes to an instance on which readiness was observed");
    std::mem::forget(fut);
    std::mem::forget(h);
}

macro_rules! proofs { ($($name:ident = ($m:expr, $mode:expr, $steps:expr, $unwind:expr, $stub:path)),*) => {$(
    #[kani::proof]
    #[kani::unwind($unwind)]
    #[kani::stub(std::time::Instant::now, tokio::model::std_instant_now)]
    #[kani::stub(catch_unwind, crate::verif_kani::env::catch_unwind_stub)]
    #[kani::stub(HedgeDelay::get_delay, $stub)]
    fn $name() { one_call($m, $mode, $steps) }
)*}}
proofs!(latency_mode_two_attempts = (2, 0, 4, 7, delay_latency), parallel_mode_two_attempts = (2, 1, 3, 7, delay_parallel), single_attempt = (1, 0, 3, 7, delay_latency),
        latency_mode_three_attempts = (3, 0, 5, 8, delay_latency));
