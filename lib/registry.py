"""Registry of harnesses per property.  One entry = one cargo-kani run."""
from dataclasses import dataclass, field
from typing import List, Tuple


@dataclass
class H:
    name: str                      # fully qualified harness name (as Kani prints it)
    pkg: str                       # cargo package the harness lives in (overlay)
    what: str = ""                 # what it decides (for evidence)
    bound: str = ""                # what is symbolic and how far
    tiers: Tuple[str, ...] = ("quick", "thorough")
    expect: str = "pass"           # pass | fail (canary: negated assertion) | known (finding witness)
    profile: str = "kernel"        # kernel: default checks on; service: semantic assertions only
    timeout: int = 600
    mem_gb: float = 12
    models: Tuple[str, ...] = ()   # [patch.crates-io] stand-ins needed
    features: Tuple[str, ...] = ()
    kani_args: Tuple[str, ...] = ()
    cbmc_args: Tuple[str, ...] = ()
    playback: bool = True          # counterexamples can be replayed natively
    trust_trace: bool = False

    @property
    def short(self):
        return self.name.replace("::", "-")


@dataclass
class Prop:
    harnesses: List[H]
    functions: List[str]
    bounds: str
    outside: str
    assumptions: List[str]


PROPS = {}
# pkg -> [(source file under src/, harness file in harness/<pkg>/, cfg predicate)]: the harness file becomes a
# child module of that source file's module (private fields reachable)
INJECT = {
    "tower-resilience-retry": [("budget.rs", "in_budget.rs", 'all(kani, feature = "verif-hooks")')],
}

RETRY = "tower-resilience-retry"
RECONNECT = "tower-resilience-reconnect"

# ---------------------------------------------------------------------------
# C14 backoff
# ---------------------------------------------------------------------------
_c14 = lambda n, what, bound, **kw: H("verif_kani::c14::" + n, RETRY, what, bound, models=("rand",), **kw)
_c14r = lambda n, what, bound, **kw: H("verif_kani::c14::" + n, RECONNECT, what, bound, models=("rand",), **kw)
PROPS["C14"] = Prop(
    harnesses=[
        _c14("fixed_total", "FixedInterval::next_interval is total and constant",
             "attempt: any usize; duration: any", timeout=300),
        _c14("exp_total_cap_anypow", "ExponentialBackoff::next_interval never panics/overflows and never exceeds max_interval",
             "attempt: any usize (0..=usize::MAX); initial: any <= 10 days; multiplier any f64 in [1,10]; max_interval None or any; "
             "powi result: ANY f64", timeout=600),
        _c14("exp_exponent_is_attempt", "the exponent passed to powi equals the attempt (clamped at i32::MAX, never negative)",
             "attempt: any usize", timeout=300),
        _c14("exp_pow_arguments", "powi is called once with (configured multiplier, attempt)",
             "attempt any usize; initial any <= 10 days; multiplier any in [1,10]; max None/any; powi result any f64", timeout=600),
        _c14("exp_monotone_m2_far", "non-decreasing and saturating, bit-exact __powidf2",
             "multiplier 2.0; attempt 0..4096; initial any <= 10 days; max None/any", timeout=1200, tiers=("thorough",)),
        _c14("rand_total_f0", "ExponentialRandomBackoff::next_interval never panics (factor 0)",
             "attempt any usize; powi result ANY f64 (=> any capped value); rng draw ANY value in range; max None/any", timeout=1500, tiers=("thorough",)),
        _c14("rand_total_f01", "same, factor 0.1", "as above", timeout=600, tiers=("thorough",)),
        _c14("rand_total_f05", "same, factor 0.5", "as above", timeout=600),
        _c14("rand_total_f1", "same, factor 1.0", "as above", timeout=600),
        _c14("rand_factor_clamped", "randomization factor outside [0,1] is clamped", "factor any non-NaN, non-subnormal f64", timeout=300),
        _c14("retry_policy_forwards", "RetryPolicy::next_backoff delegates to the interval function", "attempt any usize", timeout=300),
        _c14r("reconnect_exponential", "ReconnectPolicy::exponential: total, capped at max_delay for every attempt",
              "attempt any usize; initial any <= 10 days; max_delay any; powi result any f64", timeout=600),
        _c14r("reconnect_exponential_random", "ReconnectPolicy::exponential_random: total (never panics, always Some)",
              "attempt any usize; factor 0.5; initial 100ms; max_delay any; powi any; rng any", timeout=600),
        _c14r("reconnect_fixed_none_custom", "Fixed/None/Custom policies: constant / None / forwards the attempt", "attempt any usize", timeout=300),
        _c14("canary_exp_strictly_monotone", "canary: strict monotonicity is false (cap, zero interval)", "", expect="fail",
             tiers=("thorough",), timeout=900),
    ],
    functions=["tower_resilience_retry::backoff::{FixedInterval,ExponentialBackoff,ExponentialRandomBackoff}::next_interval",
               "ExponentialRandomBackoff::randomize", "RetryPolicy::next_backoff",
               "tower_resilience_reconnect::policy::ReconnectPolicy::delay_for_attempt",
               "core::time::Duration::{from_secs_f64,as_secs_f64,new} (std, compiled)"],
    bounds="attempt: every usize for totality/cap/exponent/value-formula; 0..4096 (monotone, m=2, bit-exact powi); initial interval any value <= 10 days; max_interval absent or any Duration; "
           "randomization factor any f64 in [0,1]",
    outside="monotonicity for multipliers other than 2.0 and attempts >= 4096 (follows from the value formula if powi is monotone in "
            "the exponent - not solver-checked); the arithmetic step 'draw in [c-cf, c+cf] => within factor' for symbolic factors "
            "(jitter totality is decided per factor in {0,0.1,0.5,1}); initial intervals above 10 days; subnormal factors",
    assumptions=["f64::powi stubbed: arbitrary f64 (totality harnesses) or a transcription of compiler-rt __powidf2 (value harnesses)",
                 "rand model: random_range(a..=b) returns an arbitrary value in [a,b]",
                 "Kani/CBMC float semantics = IEEE-754 round-to-nearest-even"],
)

# ---------------------------------------------------------------------------
# C08 retry budgets
# ---------------------------------------------------------------------------
_c08 = lambda n, what, bound, **kw: H("budget::verif_kani_in_budget::" + n, RETRY, what, bound, models=("rand",),
                                      features=("verif-hooks",), playback=False, **kw)
PROPS["C08"] = Prop(
    harnesses=[
        _c08("token_bucket_withdraw_linearizable", "every write of TokenBucketBudget::try_withdraw is an atomic withdraw on the value in the cell; grant iff write",
             "max_tokens <= 2^20, any initial <= max; <= 2 interferences (arbitrary values <= max) before any atomic step incl. spurious weak-CAS failure; CAS retries <= 4",
             timeout=600),
        _c08("token_bucket_deposit_linearizable", "every write of TokenBucketBudget::deposit is min(v+1, max) on the value in the cell (no lost withdrawal)",
             "as above", timeout=600),
        _c08("token_bucket_balance_view", "balance() reports the token count", "max <= 2^20", timeout=300),
        _c08("aimd_withdraw_linearizable", "AimdBudget::try_withdraw: atomic withdraw; AIMD limit stays in [min,max]",
             "max_budget <= 2^20, amounts 1..=8, arbitrary pre-balance, <= 2 interferences on balance and limit cells", timeout=600),
        _c08("aimd_deposit_linearizable", "AimdBudget::deposit: v' = min(v+amount, L), L in [min,max], on the value in the cell",
             "as above", timeout=600),
    ],
    functions=["tower_resilience_retry::budget::TokenBucketBudget::{new,try_withdraw,deposit,balance}",
               "tower_resilience_retry::budget::AimdBudget::{new,try_withdraw,deposit,current_max}",
               "tower_resilience_core::aimd::AimdController::{new,limit,record_success,record_failure}",
               "tower_resilience_core::verif::atomic::{AtomicU64,AtomicUsize} (hook wrappers)"],
    bounds="balances/maxima <= 2^20 tokens, deposit/withdraw amounts 1..=8 (AIMD), at most 2 interfering writes by other threads per operation "
           "(each an arbitrary invariant-satisfying value = any number of concurrent operations by any number of threads), CAS loops unwound 4 times",
    outside="more than 2 interferences during ONE operation (a third retry of the CAS loop); memory-ordering effects weaker than sequential "
            "consistency (all accesses are Relaxed on a single cell, for which coherence gives a total modification order)",
    assumptions=["rely: other threads only leave values <= max (token bucket: multiples of 1000) in the balance cell and values in [min,max] in the AIMD limit cell",
                 "hook wrappers (feature verif-hooks) forward to the std atomics unchanged",
                 "composition (not solver-checked): every write is a specification action on the current value => every concurrent history is a sequential one"],
)

# ---------------------------------------------------------------------------
HOOK_COMMITS = ["b67d6cc440f8922972f92b38f6e06fc0ff45ba61"]
NOT_APPLICABLE = {
    "C10": "decided by the contents of std::collections::HashMap / lru::LruCache (hashbrown SwissTable + SipHash): two inserts with one "
           "symbolic key do not finish in CBMC in 10 minutes and std's map cannot be replaced by a model; a harness avoiding the "
           "containers would verify nothing the statement says (DESIGN.md section 6)",
}
MANIFEST_TEXT = {
    "C08": {
        "text": "Rely/guarantee bounded model checking of the real try_withdraw/deposit code of both budgets with instrumented atomics: before every "
                "atomic step the solver may replace the balance (and the AIMD limit) by ANY invariant-satisfying value (= any number of concurrent "
                "operations by any number of threads) and may fail a weak CAS spuriously; every write the operation performs is shown to be one "
                "atomic specification action (withdraw: v>=c, v'=v-c, returns true; deposit: v'=min(v+a,cap)) on the value actually in the cell. "
                "Hence every interleaving is a sequential history and the conservation law and the cap follow by induction.",
        "note": "Trusted: Kani/CBMC; the verif-hooks atomic wrappers forward to std atomics; Relaxed accesses to a single cell are coherent; the "
                "composition step (all writes are spec actions => linearizable + conservation) is an argument, not a solver query; bound: <= 2 "
                "interferences per operation, balances <= 2^20.",
        "design_ref": "DESIGN.md 3.4, 4/C08",
        "technique": "bounded model checking (Kani/CBMC) of the real lock-free code under rely/guarantee interference injected at instrumented atomic steps",
    },
    "C14": {
        "text": "Bounded model checking of the real backoff functions: for every attempt in 0..=usize::MAX, every initial interval <= 10 days, "
                "every multiplier in [1,10] and every max_interval the SAT solver shows no panic/overflow is reachable and the delay never "
                "exceeds max_interval, whatever value powi returns; the exponent/base handed to powi are the attempt and the multiplier; "
                "with compiler-rt's __powidf2 transcribed bit-exactly the delay is non-decreasing for multiplier 2 and attempts < 4096 "
                "(thorough). Jittered variant: no panic for factors {0,0.1,0.5,1} with arbitrary draws. ReconnectPolicy wrappers included.",
        "note": "Trusted: Kani MIR->goto translation, CBMC float model (IEEE-754 RNE), the powi stubs (arbitrary value / __powidf2 "
                "transcription), the rand contract model (random_range returns any value in range). Exact-value equality and symbolic "
                "randomization factors did not finish in the solver and are outside the claim (evidence.outside_bounds).",
        "design_ref": "DESIGN.md 4/C14",
    },
}
