"""Registry of harnesses per property.  One entry = one cargo-kani run."""
from dataclasses import dataclass, field
from typing import List, Tuple


@dataclass
class H:
    name: str                      # fully qualified harness name (as Kani prints it)
    pkg: str                       # cargo package the harness lives in (overlay)
    what: str = ""                 # what it decides (for evidence)
    bound: str = ""                # what is symbolic and how far
    tiers: Tuple[str, ...] = ("quick", "thorough")
    expect: str = "pass"           # pass | fail (canary: negated assertion) | known (finding witness)
    profile: str = "kernel"        # kernel: default checks on; service: semantic assertions only
    timeout: int = 600
    mem_gb: float = 12
    models: Tuple[str, ...] = ()   # [patch.crates-io] stand-ins needed
    features: Tuple[str, ...] = ()
    kani_args: Tuple[str, ...] = ()
    cbmc_args: Tuple[str, ...] = ()
    playback: bool = True          # counterexamples can be replayed natively
    trust_trace: bool = False

    @property
    def short(self):
        return self.name.replace("::", "-")


@dataclass
class Prop:
    harnesses: List[H]
    jobs: int = field(default=12, kw_only=True)
    functions: List[str]
    bounds: str
    outside: str
    assumptions: List[str]


PROPS = {}
EXTRA_DEPS = {"tower-resilience-fallback": ["tokio"]}
# pkg -> [(source file under src/, harness file in harness/<pkg>/, cfg predicate)]: the harness file becomes a
# child module of that source file's module (private fields reachable)
INJECT = {
    "tower-resilience-circuitbreaker": [("circuit.rs", "in_circuit.rs", "kani")],
    "tower-resilience-ratelimiter": [("limiter.rs", "in_limiter.rs", "kani")],
    "tower-resilience-healthcheck": [("wrapper.rs", "in_wrapper.rs", "kani"), ("context.rs", "in_context.rs", "kani")],
    "tower-resilience-chaos": [("layer.rs", "in_layer.rs", "kani")],
    "tower-resilience-core": [("aimd.rs", "in_aimd.rs", "kani"), ("aimd.rs", "in_aimd_rg.rs", 'all(kani, feature = "verif-hooks")')],
    "tower-resilience-adaptive": [("algorithm.rs", "in_algorithm.rs", "kani"), ("service.rs", "in_service.rs", "kani")],
    "tower-resilience-retry": [("budget.rs", "in_budget.rs", 'all(kani, feature = "verif-hooks")')],
}

RETRY = "tower-resilience-retry"
RECONNECT = "tower-resilience-reconnect"

# ---------------------------------------------------------------------------
# C14 backoff
# ---------------------------------------------------------------------------
_c14 = lambda n, what, bound, **kw: H("verif_kani::c14::" + n, RETRY, what, bound, models=("rand", "tokio"), **kw)
_c14r = lambda n, what, bound, **kw: H("verif_kani::c14::" + n, RECONNECT, what, bound, models=("rand", "tokio"), **kw)
PROPS["C14"] = Prop(
    harnesses=[
        _c14("fixed_total", "FixedInterval::next_interval is total and constant",
             "attempt: any usize; duration: any", timeout=300),
        _c14("exp_total_cap_anypow", "ExponentialBackoff::next_interval never panics/overflows and never exceeds max_interval",
             "attempt: any usize (0..=usize::MAX); initial: any <= 10 days; multiplier any f64 in [1,10]; max_interval None or any; "
             "powi result: ANY f64", timeout=600),
        _c14("exp_overflow_saturates_to_cap", "when initial*multiplier^attempt is not representable the delay is max_interval / Duration::MAX (never collapses to zero)",
             "powi result any f64 >= 1e30 (incl. +inf); initial any in [1 ms, 10 days]; max None/any", timeout=600),
        _c14("exp_exponent_is_attempt", "the exponent passed to powi equals the attempt (clamped at i32::MAX, never negative)",
             "attempt: any usize", timeout=300),
        _c14("exp_pow_arguments", "powi is called once with (configured multiplier, attempt)",
             "attempt any usize; initial any <= 10 days; multiplier any in [1,10]; max None/any; powi result any f64", timeout=600),
        _c14("exp_monotone_m2_far", "non-decreasing and saturating, bit-exact __powidf2",
             "multiplier 2.0; attempt 0..4096; initial any <= 10 days; max None/any", timeout=1200, tiers=("thorough",)),
        _c14("rand_total_f0", "ExponentialRandomBackoff::next_interval never panics (factor 0)",
             "attempt any usize; powi result ANY f64 (=> any capped value); rng draw ANY value in range; max None/any", timeout=1500, tiers=()),  # did not finish in 1500 s when validated under load; f01/f05/f1 cover the same code
        _c14("rand_total_f01", "same, factor 0.1", "as above", timeout=600, tiers=("thorough",)),
        _c14("rand_total_f05", "same, factor 0.5", "as above", timeout=600),
        _c14("rand_total_f1", "same, factor 1.0", "as above", timeout=600),
        _c14("rand_factor_clamped", "randomization factor outside [0,1] is clamped", "factor any non-NaN, non-subnormal f64", timeout=300),
        _c14("retry_policy_forwards", "RetryPolicy::next_backoff delegates to the interval function", "attempt any usize", timeout=300),
        _c14r("reconnect_exponential", "ReconnectPolicy::exponential: total, capped at max_delay for every attempt",
              "attempt any usize; initial any <= 10 days; max_delay any; powi result any f64", timeout=600),
        _c14r("reconnect_exponential_random", "ReconnectPolicy::exponential_random: total (never panics, always Some)",
              "attempt any usize; factor 0.5; initial 100ms; max_delay any; powi any; rng any", timeout=600),
        _c14r("reconnect_fixed_none_custom", "Fixed/None/Custom policies: constant / None / forwards the attempt", "attempt any usize", timeout=300),
        _c14("canary_exp_strictly_monotone", "canary: strict monotonicity is false (cap, zero interval)", "", expect="fail",
             tiers=("thorough",), timeout=900),
    ],
    functions=["tower_resilience_retry::backoff::{FixedInterval,ExponentialBackoff,ExponentialRandomBackoff}::next_interval",
               "ExponentialRandomBackoff::randomize", "RetryPolicy::next_backoff",
               "tower_resilience_reconnect::policy::ReconnectPolicy::delay_for_attempt",
               "core::time::Duration::{from_secs_f64,as_secs_f64,new} (std, compiled)"],
    bounds="attempt: every usize for totality/cap/exponent/value-formula; 0..4096 (monotone, m=2, bit-exact powi); initial interval any value <= 10 days; max_interval absent or any Duration; "
           "randomization factor any f64 in [0,1]",
    outside="monotonicity for multipliers other than 2.0 and attempts >= 4096 (follows from the value formula if powi is monotone in "
            "the exponent - not solver-checked); the arithmetic step 'draw in [c-cf, c+cf] => within factor' for symbolic factors "
            "(jitter totality is decided per factor in {0,0.1,0.5,1}); initial intervals above 10 days; subnormal factors",
    assumptions=["f64::powi stubbed: arbitrary f64 (totality harnesses) or a transcription of compiler-rt __powidf2 (value harnesses)",
                 "rand model: random_range(a..=b) returns an arbitrary value in [a,b]",
                 "Kani/CBMC float semantics = IEEE-754 round-to-nearest-even"],
)

# ---------------------------------------------------------------------------
# C03 / C04 / C09 circuit breaker kernel
# ---------------------------------------------------------------------------
CB = "tower-resilience-circuitbreaker"
_cb = lambda n, what, bound, **kw: H("circuit::verif_kani_in_circuit::" + n, CB, what, bound, models=("tokio",), playback=False, **kw)
CB_BOUND = ("ARBITRARY pre-state satisfying the representation invariant (one inductive step, so histories of any length and any "
            "number of callers); window 1..=3, minimum calls 1..=4, permitted 1..=3, thresholds any f64 in [0,1], slow-call detection on/off, "
            "durations any whole ms up to 100 s, clock anywhere")
def _cbfam(fn, what, quick, **kw):
    out = []
    for wt, ns in (("count", range(4)), ("time", range(3))):
        for n in ns:
            tiers = ("quick", "thorough") if (wt, n) in quick else ("thorough",)
            kw2 = dict(kw)
            if fn == "c04_step" and (wt, n) == ("time", 2):
                kw2.update(mem_gb=30, timeout=1800)  # ran out of 12 GB when validated
            if fn == "c04_step" and (wt, n) == ("time", 1):
                kw2.update(timeout=1200)  # the long pole (~500 s): a larger timeout also schedules it first
            out.append(_cb(f"{fn}_{wt}_n{n}", f"{what} [{wt}-based window, {n} calls already in the window]", CB_BOUND, tiers=tiers, **kw2))
    return out
Q_ALL = {("count", 0), ("count", 1), ("count", 2), ("count", 3), ("time", 0), ("time", 1)}
PROPS["C03"] = Prop(jobs=6,
    harnesses=_cbfam("c03_open_rejects", "open + wait not elapsed => try_acquire false, state/timer untouched; else half-open", Q_ALL, timeout=600)
            + _cbfam("c03_late_results", "outcomes recorded while open neither close the breaker nor move its timer", {("count", 2), ("time", 1)}, timeout=900)
            + [_cb("c03_call_wiring", "CircuitBreaker::call: rejected => OpenCircuit at once, inner untouched, nothing recorded; admitted => forwarded once to the ready instance, recorded once, result unchanged",
                   "one call, <= 4 polls, breaker lock granted at the solver's choice, try_acquire answer symbolic (Circuit operations scripted), any inner outcome", profile="service", mem_gb=24, timeout=1800),
               _cb("c03_call_wiring_with_fallback", "CircuitBreakerWithFallback::call: rejected => the fallback's result, inner untouched", "as above", profile="service", mem_gb=24, timeout=1800)]
            + _cbfam("c04_step", "every transition into open (failure rate, slow-call rate, failed half-open probe, force_open) stamps the current instant, so the open period always lasts wait_duration_in_open",
                     {("count", 0), ("time", 0)}, timeout=900)
            + [_cb("readiness_passthrough", "pending / failing readiness of the wrapped service surfaces unchanged; readiness forwards nothing -- whatever state the breaker publishes, with and without fallback", "any published state", timeout=600)]
            + [H("verif_kani::c04b::builder_is_faithful", CB, "the configured wait_duration_in_open (and every other setting) reaches the breaker unchanged", "all values symbolic", models=("tokio",), playback=False, timeout=900),
               H("verif_kani::c04b::builder_classifier_step_is_faithful", CB, "same through the type-changing failure_classifier step", "all values symbolic", models=("tokio",), playback=False, timeout=900)],
    functions=["tower_resilience_circuitbreaker::circuit::Circuit::{try_acquire,record_success,record_failure,transition_to,evaluate_window}", "CircuitBreakerConfigBuilder::{*, failure_classifier, build}"],
    bounds=CB_BOUND, outside="window sizes > 3; the service-level wiring (call() consults try_acquire before touching the inner service) is a separate protocol harness",
    assumptions=["Instant::now stubbed by a virtual clock; catch_unwind stubbed (no unwinding in Kani)",
                 "every Circuit operation runs under the breaker's mutex (lib.rs), so sequences of operations are the interleavings"],
)
PROPS["C04"] = Prop(jobs=6,
    harnesses=_cbfam("c04_step", "one step of every operation from an arbitrary state obeys the documented machine", Q_ALL, timeout=900)
            + _cbfam("c04_metrics", "metrics() agrees with state and window", {("count", 2), ("time", 2)}, timeout=600)
            + [H("verif_kani::c04b::builder_is_faithful", CB, "the public builder passes every configured value through unchanged (minimum calls above the window included; default minimum = window)",
                 "all values symbolic", models=("tokio",), playback=False, timeout=900),
               H("verif_kani::c04b::builder_classifier_step_is_faithful", CB, "same through the type-changing failure_classifier step, settings before or after it; default minimum = FINAL window size in both orders",
                 "all values symbolic", models=("tokio",), playback=False, timeout=900)]
            + [_cb("c04_custom_classifier_recording", "custom classifier: one outcome recorded per admitted call, failure iff the classifier says so", "one admitted call, any inner outcome", profile="service", mem_gb=24, timeout=1800),
               _cb("clones_share_one_breaker", "clones (and the fallback variant) share the circuit and the lock-free state cell: every handle sees every transition", "any published state", timeout=600),
               next(h for h in PROPS["C03"].harnesses if h.name.endswith("c03_call_wiring"))],
    functions=["Circuit::{record_success,record_failure,try_acquire,force_open,force_closed,reset,transition_to,evaluate_window,metrics,record_count_based,cleanup_old_records,time_based_stats}"],
    bounds=CB_BOUND, outside="window sizes > 3, more than 2 records in a time-based pre-state",
    assumptions=["Instant::now stubbed by a virtual clock; catch_unwind stubbed", "representation invariant as written in any_circuit()"],
)
PROPS["C09"] = Prop(jobs=6,
    harnesses=[
        _cb("c09_overlapping_count", "KNOWN-FINDING witness: all permits held by in-flight trial calls, one more caller must be rejected",
            "arbitrary half-open pre-state, any config", expect="known", timeout=600),
        _cb("c09_overlapping_time", "same, time-based window", "as above", expect="known", timeout=600),
        _cb("c04_custom_classifier_recording", "every admitted (trial) call records exactly one outcome, classified by the configured classifier", "one admitted call, any inner outcome", profile="service", mem_gb=24, timeout=1800),
    ] + _cbfam("c04_step", "inductive step: half-open admits iff completed trial calls < permitted; success counts, closes at permitted; failure re-opens",
               {("count", 0), ("count", 2), ("time", 0)}, timeout=900)
      + [next(h for h in PROPS["C03"].harnesses if h.name.endswith("c03_call_wiring"))]  # every admitted (trial) call records its outcome even when the breaker lock is contended
      + [H("verif_kani::c04b::builder_is_faithful", CB, "the configured permitted_calls_in_half_open (and every other setting) reaches the breaker unchanged", "all values symbolic", models=("tokio",), playback=False, timeout=900),
         H("verif_kani::c04b::builder_classifier_step_is_faithful", CB, "same through the type-changing failure_classifier step, settings before or after it", "all values symbolic", models=("tokio",), playback=False, timeout=900)],
    functions=["Circuit::{try_acquire (HalfOpen branch), record_success, record_failure, transition_to}", "CircuitBreakerConfigBuilder::{*, failure_classifier, build}"],
    bounds=CB_BOUND,
    outside="overlapping trial calls are a recorded finding (known_findings.json), decided separately by the witness harnesses",
    assumptions=["Instant::now / catch_unwind stubs", "a trial call 'reaches the wrapped service' iff try_acquire returned true (wiring checked under C03/C20)"],
)

# ---------------------------------------------------------------------------
# C01 / C07 bulkhead protocol
# ---------------------------------------------------------------------------
BH = "tower-resilience-bulkhead"
_bh = lambda n, what, bound, **kw: H("verif_kani::c01::" + n, BH, what, bound, models=("tokio",), profile="service", playback=False, mem_gb=30, **kw)
BH_BOUND = ("ONE call future; up to 3 schedule steps (then dropped), each = advance the virtual clock by any amount <= 40 s and poll, or drop the future; "
            "max_wait in {None, 0, any <= 60 s}; max_concurrent_calls 1..=1000; semaphore answers per mode; inner future completes at any poll "
            "with any ok/err value or never")
_bh_h = [
    _bh("layer_builds_one_shared_semaphore", "layer(): one semaphore of max_concurrent_calls permits, shared by clones; configured max_wait is what a waiter is timed against",
        "max_concurrent_calls 1..=100000, max_wait any whole ms <= 60 s", timeout=1500),
    _bh("one_call_two_polls", "per-caller protocol P1-P3, admission in the poll that grants the slot, exact timeout, transparency; semaphore grants at the solver's choice at every poll",
        BH_BOUND.replace("up to 3 schedule steps", "up to 2 schedule steps"), timeout=1500),
    _bh("one_call_any_availability", "same with up to 3 polls", BH_BOUND, timeout=3000, tiers=("thorough",)),
    H("verif_kani::c01::readiness_passthrough", BH, "pending / failing readiness of the wrapped service surfaces unchanged; readiness forwards nothing", "", models=("tokio",), playback=False, timeout=600),
]
PROPS["C01"] = Prop(harnesses=_bh_h,
    functions=["tower_resilience_bulkhead::service::Bulkhead::{new,poll_ready,call} (the compiled async state machine)", "BulkheadLayer::layer"],
    bounds=BH_BOUND, outside="product of several call futures (does not finish in CBMC: 14 GB at 2 callers x 4 steps); panicking inner calls (Kani has no unwinding; the "
    "drop-at-any-point schedule exercises the same RAII release path); more than 3 polls of one call",
    assumptions=["tokio::sync::Semaphore, tokio::time::timeout replaced by the contract model in /verif/models/tokio (environment mode)",
                 "composition (not solver-checked): semaphore contract (<= N permits outstanding) + protocol P1-P3 for every caller => <= N requests inside the inner service",
                 "Instant::now -> virtual clock; catch_unwind stubbed; service profile: semantic assertions only (no pointer/overflow checks)"])
PROPS["C07"] = Prop(harnesses=_bh_h, functions=PROPS["C01"].functions, bounds=BH_BOUND, outside=PROPS["C01"].outside, assumptions=PROPS["C01"].assumptions)

# ---------------------------------------------------------------------------
# C13 adaptive limiter
# ---------------------------------------------------------------------------
CORE = "tower-resilience-core"
ADAPT = "tower-resilience-adaptive"
PROPS["C13"] = Prop(
    harnesses=[
        H("aimd::verif_kani_in_aimd::aimd_limit_in_bounds_step", CORE, "AimdController: from any limit in [min,max] every operation stores a limit in [min,max]",
          "min <= max <= 2^32, any initial/increase, decrease_factor any f64 in [0,1], record_successes(any count)", timeout=600),
        H("aimd::verif_kani_in_aimd_rg::aimd_every_write_in_bounds_under_interference", CORE, "AimdController under interference: every write (store / fetch_add / fetch_sub / CAS) leaves the limit in [min,max]",
          "any config min <= max <= 2^32; <= 2 interfering writes of arbitrary in-bounds values before any atomic step", features=("verif-hooks",), playback=False, timeout=900),
        H("algorithm::verif_kani_in_algorithm::vegas_limit_in_bounds_failure", ADAPT, "Vegas::record_failure keeps the limit in bounds", "arbitrary internal state, min <= max <= 2^32", models=("tokio",), timeout=600),
        H("algorithm::verif_kani_in_algorithm::vegas_limit_in_bounds_adjust", ADAPT, "Vegas::adjust_limit keeps the limit in bounds, unit steps", "arbitrary RTT statistics (any u64), any alpha/beta", models=("tokio",), timeout=900),
        H("algorithm::verif_kani_in_algorithm::vegas_update_rtt_keeps_limit", ADAPT, "Vegas::update_rtt does not touch the limit", "any latency <= 1 h", models=("tokio",), timeout=600),
        H("algorithm::verif_kani_in_algorithm::aimd_wrapper_limit_in_bounds", ADAPT, "Aimd algorithm wrapper keeps the limit in bounds", "any config in the bound", models=("tokio",), timeout=600),
        H("verif_kani::c13::readiness_passthrough_below_limit", ADAPT, "pending / failing readiness of the wrapped service surfaces unchanged; readiness forwards nothing (below the limit); a refused readiness counts nothing in flight", "", models=("tokio",), playback=False, timeout=600),
        H("verif_kani::c13::in_flight_exact_one_call", ADAPT, "AdaptiveService: readiness iff in_flight < limit; in_flight returns to its previous value on completion, error and drop; transparency",
          "one call, <= 3 polls or drop at any point, any limit 1..=1000, any in-flight count of other clones, any inner outcome", models=("tokio",), profile="service", playback=False, timeout=1800, mem_gb=24),
    ],
    functions=["tower_resilience_core::aimd::AimdController::{new,record_success,record_failure,record_successes,reset}",
               "tower_resilience_adaptive::algorithm::{Vegas::{new,record_failure,adjust_limit,update_rtt},Aimd::{record_success,record_failure}}",
               "tower_resilience_adaptive::service::AdaptiveService::{new,poll_ready,call} + AdaptiveFuture"],
    bounds="limits min <= max <= 2^32 (above 2^53 `current as f64` rounds and is outside the claim); one operation from an arbitrary state; "
           "service: one call, <= 3 polls, drop at any point",
    outside="limits above 2^32; panicking inner calls (no unwinding in Kani - the drop path is the same RAII guard); several calls of one clone in flight at once; "
            "CONCURRENT Vegas updates: Vegas' atomics are not instrumented (the rely/guarantee hook covers AimdController only), so for Vegas only the sequential step from an arbitrary state is decided - "
            "a change that turns its final store into a read-modify-write relative to a stale load is not seen",
    assumptions=["interleavings (AimdController): every write is checked under interference by the rely/guarantee harness; (Vegas): every limit update is one load + one store in the current code, so an arbitrary pre-state in [min,max] covers its interleavings - this is an assumption about the code shape, not re-checked",
                 "tokio::sync::Semaphore replaced by the model (the service only calls add_permits)", "Instant::now -> virtual clock"],
)

# ---------------------------------------------------------------------------
# C19 chaos
# ---------------------------------------------------------------------------
CHAOS = "tower-resilience-chaos"
_ch = lambda n, what, bound, **kw: H("verif_kani::c19::" + n, CHAOS, what, bound, models=("tokio", "rand"), profile="service", playback=False, mem_gb=24, **kw)
PROPS["C19"] = Prop(
    harnesses=[
        _ch("one_request_all_rolls", "error/latency decisions, latency range, skip of the inner call, transparency at 0, always-fail at 1, draw count",
            "one request; error rate and latency rate any f64 in [0,1]; every roll in [0,1); min/max latency any whole ms <= 100 s (min <,=,> max); any seed; <= 3 polls with an arbitrary advance in between", timeout=1800),
        _ch("clones_share_one_seeded_stream", "clones of one seeded service consume consecutive positions of one stream; same seed => same start",
            "error rate 1 (one draw per request), 3 requests, any seed", timeout=1500),
        H("verif_kani::c19::readiness_passthrough", CHAOS, "pending / failing readiness of the wrapped service surfaces unchanged; readiness forwards nothing; no random draw for readiness", "any rates, any seed", models=("tokio", "rand"), playback=False, timeout=600),
        H("verif_kani::c19::builder_is_faithful", CHAOS, "builder -> layer: seed, error rate, latency rate and bounds reach the config whatever the order of the builder calls around the two type-changing steps",
          "settings placed before error_rate / between error_rate and error_fn / after error_fn; any seed, rates in [0,1], bounds whole ms <= 100 s", models=("tokio", "rand"), playback=False, timeout=600),
        _ch("deterministic_in_seed_and_order", "clones share one advancing stream; same seed + same order => same decisions and latencies (self-composition)",
            "2 requests through 2 clones, replayed on a second service; stream = 8 arbitrary values (did not finish in 40 min; kept for very long runs)", timeout=14400, tiers=()),
    ],
    functions=["tower_resilience_chaos::service::Chaos::{new,poll_ready,call}", "ChaosConfig::create_rng", "CustomErrorFn::{inject_error,error_rate}"],
    bounds="one request (two for determinism), <= 4 polls each, rates/rolls all of [0,1], latency bounds whole ms <= 100 s",
    outside="sub-millisecond latency bounds (the layer truncates), more than two requests, that a real seeded StdRng is a deterministic function of its seed (rand's contract)",
    assumptions=["rand replaced by the contract model: a draw is any value of its documented range; a StdRng is a position in a stream fixed by its seed",
                 "tokio::time::sleep replaced by the virtual-clock model", "Instant::now -> virtual clock; catch_unwind stubbed"],
)

# ---------------------------------------------------------------------------
# C17 fallback
# ---------------------------------------------------------------------------
FB = "tower-resilience-fallback"
_fb = lambda n, what, **kw: H("verif_kani::c17::" + n, FB, what,
    "one request, any inner outcome (ok(v)/err(e), any 32-bit values), any request, predicate absent/present (any bit-mask predicate) set before or after the strategy, backup ok/failing",
    models=("tokio",), profile="service", playback=False, mem_gb=20, timeout=1500, **kw)
PROPS["C17"] = Prop(
    harnesses=[_fb("strategy_value", "static value strategy"), _fb("strategy_value_fn", "value function strategy"),
               _fb("strategy_from_error", "from-error strategy"), _fb("strategy_from_request_error", "from-request-and-error strategy"),
               _fb("strategy_backup_service", "backup service strategy (ok and failing)"), _fb("strategy_exception", "error transformation strategy")],
    functions=["tower_resilience_fallback::Fallback::{new,poll_ready,call}", "FallbackConfigBuilder::{value,value_fn,from_error,from_request_error,service,exception,handle,build}", "FallbackLayer::layer"],
    bounds="one request per harness, one harness per strategy; all 32-bit request/response/error values; predicate = any bit-mask test",
    outside="responses/errors that are not plain 32-bit values; several requests; event listeners (none registered)",
    assumptions=["the fallback crate does not use tokio on this path; Instant::now -> virtual clock; catch_unwind stubbed", "inner and backup futures complete at their first poll"],
)

# ---------------------------------------------------------------------------
# C02 / C15 rate limiter
# ---------------------------------------------------------------------------
RL = "tower-resilience-ratelimiter"
_rlk = lambda n, what, bound, **kw: H("limiter::verif_kani_in_limiter::" + n, RL, what, bound, models=("tokio",), playback=False, **kw)
_rls = lambda n, what, bound, **kw: H("verif_kani::c02::" + n, RL, what, bound, models=("tokio",), profile="service", playback=False, mem_gb=24, **kw)
RL_BOUND = "ONE try_acquire from an ARBITRARY state satisfying the representation invariant (so every history and any number of callers); limit, period, timeout, clock symbolic (whole ms; whole seconds for the sliding counter; limit <= 10^6 fixed / <= 4 (quick) <= 16 (thorough) counter / concrete 1..3 log)"
_rl_h = [
    _rlk("fixed_window_step", "fixed window: refresh only after a full period, a grant consumes one of <= limit permits, wait/reject decisions", RL_BOUND, timeout=600),
    _rlk("fixed_idle_recovers", "fixed window: after two idle periods a full window is available", RL_BOUND, timeout=600),
    _rlk("sliding_log_step_l1_n0", "sliding log (limit 1, 0 grants in the log): grants dropped only when expired, grant iff < limit unexpired", RL_BOUND, timeout=900),
    _rlk("sliding_log_step_l1_n1", "sliding log (limit 1, 1 grants in the log): grants dropped only when expired, grant iff < limit unexpired", RL_BOUND, timeout=900),
    _rlk("sliding_log_step_l2_n1", "sliding log (limit 2, 1 grants in the log): grants dropped only when expired, grant iff < limit unexpired", RL_BOUND, timeout=900),
    _rlk("sliding_log_step_l2_n2", "sliding log (limit 2, 2 grants in the log): grants dropped only when expired, grant iff < limit unexpired", RL_BOUND, timeout=900),
    _rlk("sliding_log_step_l3_n2", "sliding log (limit 3, 2 grants in the log): grants dropped only when expired, grant iff < limit unexpired", RL_BOUND, timeout=900, tiers=("thorough",)),
    _rlk("sliding_log_step_l3_n3", "sliding log (limit 3, 3 grants in the log): grants dropped only when expired, grant iff < limit unexpired", RL_BOUND, timeout=900, tiers=("thorough",)),
    _rlk("sliding_log_huge_window", "sliding log with a window of 10^9 s ..= Duration::MAX ('never refresh'; oldest + window is not a representable Instant): a full log admits nobody, the caller is rejected",
         "limit 1, one unexpired grant, any timeout <= 300 s", timeout=600),
    _rlk("sliding_log_limit_zero", "sliding log with limit_for_period = 0: nobody is granted (the empty log has no oldest grant to wait for)", "limit 0, any window <= 100 s, any timeout <= 300 s", timeout=600),
    _rlk("sliding_counter_step_limit4", "sliding counter: rotation only after a full bucket, grants counted, <= limit per bucket (f64 weights bit-exact)", RL_BOUND + "; limit <= 4, whole seconds", timeout=900),
    _rlk("sliding_counter_step_limit16", "same, limit <= 16", RL_BOUND + "; limit <= 16, whole seconds", timeout=2400, tiers=("thorough",)),
    _rlk("counter_idle_recovers", "sliding counter: empty after two idle periods", RL_BOUND, timeout=600),
    _rlk("builder_reaches_window_state", "builder -> layer -> service: configured limit/period/timeout/window type are what the window state uses; clones share the state",
         "limit <= 1000, any period/timeout (whole ms), all three window types", timeout=900),
    _rlk("acquire_protocol", "acquire(): for EVERY sequence of try_acquire answers: admitted iff its last try consumed a permit; at most two tries, one sleep of exactly the offered wait; second try only after the wait",
         "one acquire() future, <= 3 polls with arbitrary clock advances; try_acquire answers scripted (arbitrary Ok(ZERO)/Ok(wait)/Err)", timeout=1500, profile="service", mem_gb=24),
    _rlk("call_wiring", "RateLimiter::call: admitted -> inner exactly once, unchanged; rejected -> RateLimited, inner untouched; waiting -> not forwarded",
         "one call, <= 3 polls; try_acquire answers scripted", timeout=1800, profile="service", mem_gb=24),
]
PROPS["C02"] = Prop(harnesses=_rl_h,
    functions=["limiter::{FixedWindowState,SlidingLogState,SlidingCounterState}::{try_acquire,refresh,maybe_rotate_bucket,estimate_wait_time}",
               "limiter::SharedRateLimiter::acquire (compiled async fn)", "RateLimiter::{new,poll_ready,call}"],
    bounds=RL_BOUND + "; acquire()/call(): one future, <= 3 polls",
    outside="products of several acquire() futures (do not finish); sliding-log limits > 3; the composition 'grants respect the window (kernel) + admitted => own grant (acquire) + admitted => one inner call (call)' is an argument",
    assumptions=["Instant::now -> virtual clock, tokio::time::sleep -> virtual-clock model", "all access to the window state is try_acquire under the std mutex"])
PROPS["C15"] = Prop(harnesses=_rl_h, functions=PROPS["C02"].functions, bounds=PROPS["C02"].bounds, outside=PROPS["C02"].outside, assumptions=PROPS["C02"].assumptions)

# ---------------------------------------------------------------------------
# C16 reconnect
# ---------------------------------------------------------------------------
_r16 = lambda n, what, **kw: H("verif_kani::c16::" + n, RECONNECT, what,
    "one request, <= 3 polls, the clock advanced by exactly the policy delay between them (early polls: harness not_connected_while_failing); max_attempts None or 0..=1; inner outcomes symbolic (ok / reconnectable / other error); another request may mark the shared state connected before any poll",
    models=("tokio", "rand"), profile="service", playback=False, mem_gb=24, timeout=2400, **kw)
PROPS["C16"] = Prop(
    harnesses=[_r16("predicate_checked_for_every_error", "connection failure then other error: one retry, then the other error is returned; predicate consulted for both"),
               _r16("attempt_budget_is_per_request", "max_attempts=1: another request's success between two attempts does not extend this request's budget"),
               _r16("not_connected_while_failing", "state is not Connected, and no call is issued, during the back-off and while the retried call is in flight"),
               _r16("custom_policy_predicate_retry", "custom policy with per-attempt delays, predicate, retry on", tiers=("thorough",)),
               _r16("custom_policy_no_predicate", "custom policy, no predicate", tiers=("thorough",)),
               _r16("fixed_policy_no_retry", "fixed policy, retry_on_reconnect off"),
               _r16("no_policy", "policy None", tiers=("thorough",)),
               H("verif_kani::c16::readiness_passthrough", RECONNECT, "pending / failing readiness of the wrapped service surfaces unchanged; readiness forwards nothing", "", models=("tokio", "rand"), playback=False, timeout=600),
               H("verif_kani::c16::builder_is_faithful", RECONNECT, "public builder: attempt limit (0 included; unlimited only when asked; last writer wins), retry_on_reconnect and predicate presence reach the config",
                 "any u32 limit, 4 builder orders", models=("tokio", "rand"), playback=False, timeout=600)],
    functions=["tower_resilience_reconnect::service::{ReconnectService::{new,poll_ready,call},ReconnectFuture::poll}", "ReconnectConfig::should_reconnect", "(ReconnectPolicy::delay_for_attempt is scripted here; its values are C14)", "ReconnectState::{mark_connected,mark_disconnected,mark_reconnecting,state}"],
    bounds="one request, <= 3 polls, max_attempts <= 1 or unlimited (then bounded by the 3 polls), delays <= 10 s",
    outside="exponential/jittered policies here (their delays are C14); more than 3 polls; u32 overflow of the attempt counter after 2^32 failures with unlimited attempts",
    assumptions=["tokio::time::Sleep replaced by the virtual-clock model; Instant::now -> virtual clock", "the predicate sees InnerErr codes (only error type in the harness)",
                 "ReconnectPolicy::delay_for_attempt stubbed by a script returning a harness-chosen delay per attempt (None for 'no policy')"],
)

# ---------------------------------------------------------------------------
# C18 healthcheck (selection part)
# ---------------------------------------------------------------------------
HC = "tower-resilience-healthcheck"
_hc = lambda n, what, bound, **kw: H("verif_kani::c18::" + n, HC, what, bound, models=("tokio",), playback=False, **kw)
PROPS["C18"] = Prop(
    harnesses=[
        _hc("first_available_n3", "first-available: first usable resource, None iff none", "3 resources, all 4^3 published status vectors", timeout=900),
        _hc("prefer_healthy_n3", "prefer-healthy: healthy before degraded, None iff none usable", "3 resources, all status vectors", timeout=900),
        _hc("round_robin_n3", "round-robin: only eligible, None iff none", "3 resources, any counter value", timeout=900),
        _hc("round_robin_n2", "round-robin, 2 resources", "2 resources, any counter value", timeout=900, tiers=("thorough",)),
        _hc("empty_list_selects_nothing", "empty resource list", "", timeout=600),
        _hc("round_robin_successor", "round-robin: two consecutive selections return an eligible resource and its cyclic successor among the eligible ones (=> even visiting)", "3 resources, all status vectors, counter start < 2^32", timeout=1800),
        _hc("wrapper_get_first_available", "get_healthy / get_usable through the real wrapper (filter, strategy, index mapping): only eligible resources, None iff none", "2 resources, all 4^2 published status vectors, first-available, get_healthy", profile="service", mem_gb=20, timeout=800, tiers=()),
        _hc("wrapper_get_round_robin", "same with round-robin, get_healthy then get_usable", "2 resources, all 4^2 published status vectors", profile="service", mem_gb=20, timeout=3600, tiers=()),
        _hc("thresholds_two_ticks", "periodic check task: published status flips exactly at the thresholds; get_healthy/get_usable follow it",
            "1 resource, 2 interval ticks, per-tick result symbolic (healthy/degraded/unhealthy/unknown/slower than timeout), thresholds 1..=3", profile="service", mem_gb=30, timeout=5400, tiers=()),
        _hc("thresholds_three_ticks", "same, 3 ticks", "3 ticks", profile="service", mem_gb=30, timeout=5400, tiers=()),
        H("context::verif_kani_in_context::context_counters_step", HC, "counter part of the threshold clause, one step from an arbitrary counter state: record_success / record_failure extend one run by exactly one and end the other; counting publishes nothing; publishing keeps the runs",
          "any counters < 2^64-1, any status", models=("tokio",), playback=False, timeout=600),
        _hc("custom_selector_sees_statuses", "custom selector receives the published statuses; its answer is returned", "3 resources", timeout=900),
    ],
    functions=["tower_resilience_healthcheck::selector::SelectionStrategy::select", "HealthCheckedContext::{new,status,set_status}"],
    bounds="<= 3 resources; all status vectors; 2 consecutive round-robin selections (inductive successor property)",
    outside="the THRESHOLD part of C18 (status flips after failure_threshold / success_threshold consecutive checks): that logic is a closure nested in two tokio::spawn calls inside "
            "HealthCheckWrapper::start; harnesses thresholds_two_ticks / _three_ticks exist (tiers=()) but did not finish in 68 min at 12 GB; the wrapper's own get_healthy / get_usable "
            "(filter + index mapping around select; harnesses wrapper_get_*, tiers=()) ran out of 20 GB / 800 s even with 2 resources (drop glue of the cloned contexts: "
            "Arc<RwLock<HashMap<String, Box<dyn Any>>>>), so what is decided is SelectionStrategy::select on the published statuses; random strategy (feature `random`); more than 3 resources; wrap-around of the round-robin counter at usize::MAX",
    assumptions=["std::hash::RandomState::new stubbed (zeroed keys; the extension map is never touched)"],
)

# ---------------------------------------------------------------------------
# C06 time limiter
# ---------------------------------------------------------------------------
TLM = "tower-resilience-timelimiter"
_t6 = lambda n, what, **kw: H("verif_kani::c06::" + n, TLM, what,
    "one call; timeout any whole ms <= 60 s; inner latency any whole ms <= 90 s (below / equal / above the timeout) or never; ok/err outcome; 2 polls with an arbitrary clock advance between them; "
    "non-cancel mode: the spawned task is scheduled at the solver's choice before each poll",
    models=("tokio",), profile="service", playback=False, mem_gb=34, timeout=2400, **kw)
PROPS["C06"] = Prop(
    harnesses=[_t6("cancel_fixed_timeout", "cancellation on, fixed timeout"), _t6("cancel_per_request_timeout", "cancellation on, per-request timeout", tiers=("thorough",)),
               _t6("no_cancel_fixed_timeout", "cancellation off: spawn + oneshot + select!; background call keeps running"),
               _t6("cancel_huge_timeout", "cancellation on, timeout from 10^6 s up to Duration::MAX: never times out"),
               _t6("no_cancel_huge_timeout", "cancellation off, same", tiers=("thorough",)),
               _t6("builder_is_faithful", "builder -> layer -> service: configured timeout and cancellation mode are used"),
               H("verif_kani::c06::readiness_passthrough", TLM, "pending / failing readiness of the wrapped service surfaces unchanged; readiness forwards nothing", "both modes", models=("tokio",), playback=False, timeout=600),
               _t6("builder_timeout_fn_is_faithful", "builder with timeout_fn (type-changing step) in both orders: per-request timeout and cancellation mode are used")],
    functions=["tower_resilience_timelimiter::TimeLimiter::{new,poll_ready,call}", "TimeoutFn::get_timeout (FixedTimeout, DynamicTimeout)"],
    bounds="one call, 2 polls, timeout <= 60 s, latency <= 90 s or never",
    outside="several concurrent calls (they share no state: each call future owns its clone and its timer); that tokio's timer wakes the task AT the deadline is tokio's (the model lets the harness poll at any instant, so 'never pending at or after the deadline' is what is decided)",
    assumptions=["tokio::time::{timeout,sleep}, spawn, oneshot replaced by the model; `select!` is tokio's own macro text with the start branch chosen by the solver", "Instant::now -> virtual clock"],
)

# ---------------------------------------------------------------------------
# C12 hedge
# ---------------------------------------------------------------------------
HEDGE = "tower-resilience-hedge"
_h12 = lambda n, what, bound, timeout=3000, **kw: H("verif_kani::c12::" + n, HEDGE, what, bound, models=("tokio",), profile="service", playback=False, mem_gb=30, timeout=timeout, **kw)
PROPS["C12"] = Prop(
    harnesses=[
        _h12("short_parallel_immediate", "parallel mode, both attempts complete at once: all started together, first delivered success wins, failure only when both failed", "2 polls of the call, outcomes symbolic", timeout=1500),
        _h12("short_latency_primary_immediate", "latency mode, primary completes before the delay: success => resolved, no hedge; failure => still pending, no early hedge", "2 polls, outcome symbolic", timeout=1500),
        _h12("short_latency_hedge_fails_primary_running", "latency mode: hedge started exactly at the delay; its failure does not fail the call while the primary runs", "3 polls, hedge error symbolic", timeout=1500),
        _h12("scenario_primary_fails_while_hedge_runs", "latency mode: primary (7 s) outlives delay (5 s) + hedge (3 s): success at once; primary failure keeps the call pending until the hedge decides",
             "fixed schedule and latencies, outcomes of both attempts symbolic (ok/err, any 32-bit value), any request", tiers=(), timeout=14400),
        _h12("scenario_primary_finishes_before_delay", "latency mode: primary finishes before the delay: success => no hedge; failure => hedge still started at the delay and decides", "as above", tiers=(), timeout=14400),
        _h12("scenario_parallel_two_attempts", "parallel mode: both attempts at once, first success wins, failure only after both failed", "as above", tiers=(), timeout=14400),
        _h12("latency_mode_fixed_schedule", "latency mode (5 s delay), 2 attempts, fixed clock steps 0/5/4/8 s, all attempt tasks run each round",
             "per-attempt latency any whole second <= 12 s, ok/err outcomes symbolic; 4 rounds", tiers=(), timeout=14400),
        _h12("parallel_mode_fixed_schedule", "parallel mode, 2 attempts, fixed clock steps 0/0/6/7 s", "as above", tiers=(), timeout=14400),
        _h12("latency_mode_two_attempts", "latency mode (fixed positive delay), max_hedged_attempts = 2",
             "delay 5 s (HedgeDelay::get_delay stubbed by a constant); per-attempt latency any whole ms <= 60 s, ok/err outcome; 4 scheduling rounds: advance the clock by any amount, run the attempt tasks, poll the call",
             tiers=("thorough",), timeout=7200),
        _h12("parallel_mode_two_attempts", "parallel mode (Immediate), 2 attempts", "3 rounds, otherwise as above", tiers=("thorough",), timeout=7200),
        _h12("single_attempt", "max_hedged_attempts = 1", "3 rounds", tiers=("thorough",)),
        _h12("latency_mode_three_attempts", "latency mode, 3 attempts", "5 rounds", tiers=("thorough",), timeout=5400),
    ],
    functions=["tower_resilience_hedge::{Hedge::{new,poll_ready,call},execute_with_hedging}", "HedgeDelay::get_delay"],
    bounds="max_hedged_attempts 1..=3 (quick: 2), 3-5 scheduling rounds, latencies <= 60 s, delay <= 30 s",
    outside="more scheduling rounds / attempts; per-attempt Dynamic delays; that tokio's timer wakes the call at the delay (the harness polls at arbitrary instants)",
    assumptions=["tokio spawn / mpsc / sleep replaced by the model; the harness is the scheduler; `select!` is tokio's macro text (biased)", "Instant::now -> virtual clock",
                 "HedgeDelay::get_delay stubbed by a constant (5 s latency mode / 0 parallel mode) so that CBMC explores one mode per harness"],
)

# ---------------------------------------------------------------------------
# C11 coalesce
# ---------------------------------------------------------------------------
COAL = "tower-resilience-coalesce"
_c11 = lambda n, what, bound, **kw: H("verif_kani::c11::" + n, COAL, what, bound, models=("tokio", "hashbrown"), profile="service", playback=False, mem_gb=24, timeout=2400, **kw)
PROPS["C11"] = Prop(
    harnesses=[
        _c11("leader_waiter_and_other_key", "one inner call per key; waiter gets a clone of the leader's result or LeaderCancelled at its next poll; key reusable at once; keys independent",
             "3 requests over 2 keys through clones of one service (+ a 4th after completion/cancellation); leader completed (inner completes at a poll of the solver's choice, ok/err) or dropped; all 32-bit requests/results"),
        _c11("dropped_waiter_is_harmless", "a dropped waiter does not disturb the leader or other waiters", "1 leader, 2 waiters on one key"),
        H("verif_kani::c11::readiness_passthrough", COAL, "pending / failing readiness of the wrapped service surfaces unchanged; readiness forwards nothing", "", models=("tokio", "hashbrown"), playback=False, timeout=600),
        _c11("lone_leader_dropped_key_reusable", "a leader dropped (before or after its first poll, finished or not) while nobody waits frees its key: the next request starts its own call and resolves with it",
             "2 requests on one key, all 32-bit requests/results"),
    ],
    functions=["tower_resilience_coalesce::service::{CoalesceService::{new,poll_ready,call},CoalesceFuture::{poll,drop},InFlight::{try_join,complete,cancel}}"],
    bounds="<= 4 requests over 2 keys, fixed creation order (leader, waiter, other key), leader outcome and cancellation symbolic",
    outside="arbitrary interleavings of more requests; leader PANIC (= drop during unwinding; only the drop is modelled); hashing (the map is an association-list model)",
    assumptions=["hashbrown::HashMap replaced by an association-list model, tokio::sync::broadcast by the model; parking_lot::Mutex is the real one (uncontended)"],
)

# ---------------------------------------------------------------------------
# C20 transparency / readiness / listeners  (assembled from the per-layer protocol harnesses:
# their [C20.*] assertions check forwarding, unchanged results and the ready-instance rule)
# ---------------------------------------------------------------------------
EXEC = "tower-resilience-executor"
def _ref(pid, suffix):
    return next(h for h in PROPS[pid].harnesses if h.name.endswith(suffix))

# ---------------------------------------------------------------------------
_r5 = lambda n, what, **kw: H("verif_kani::c05::" + n, RETRY, what,
    "one request; max_attempts 0..=3 (fixed or per-request); outcome sequence of <= 3 symbolic results (ok / retryable / non-retryable error); backoff per retry any whole ms <= 10 s; budget grants symbolic per retry; polls: one per attempt, the clock advanced by exactly the backoff in between (early polls: harness waits_full_backoff)",
    models=("tokio", "rand"), profile="service", playback=False, mem_gb=24, timeout=2400, **kw)
PROPS["C05"] = Prop(
    harnesses=[_r5("waits_full_backoff", "still pending and no retry at any instant before the backoff elapsed; retry exactly when it has"),
               _r5("waits_full_backoff_after_slow_attempt", "an attempt that itself takes time is still followed by the FULL backoff, measured from its failure"),
               _r5("plain_two_attempts", "no predicate, no budget, max_attempts 0..=2"),
               _r5("with_budget_two_attempts", "budget + predicate, max_attempts 0..=2"),
               _c14("exp_overflow_saturates_to_cap", "the configured exponential backoff never collapses to zero deep into a retry sequence (shared with C14)",
                    "powi result any f64 >= 1e30; initial any in [1 ms, 10 days]; max None/any", timeout=600),
               _c14("exp_total_cap_anypow", "the configured exponential backoff is total and capped for every attempt (shared with C14)", "see C14", timeout=600),
               H("verif_kani::c05::builder_is_faithful", RETRY, "public builder -> layer -> service: attempt limit (fixed / per request), fixed back-off, predicate and budget reach the config, two builder orders",
                 "any usize limit, back-off whole ms <= 1000 s", models=("tokio", "rand"), playback=False, timeout=600),
               H("verif_kani::c05::readiness_passthrough", RETRY, "pending / failing readiness of the wrapped service surfaces unchanged; readiness forwards nothing", "", models=("tokio", "rand"), playback=False, timeout=600),
               _r5("plain", "no predicate, no budget, max_attempts 0..=3", tiers=("thorough",)), _r5("with_predicate", "retry predicate", tiers=("thorough",)),
               _r5("with_budget", "retry budget", tiers=("thorough",)),
               _r5("with_budget_predicate_dynamic_max", "budget + predicate + per-request max_attempts", tiers=("thorough",))],
    functions=["tower_resilience_retry::Retry::{new,poll_ready,call}", "RetryPolicy::{should_retry,next_backoff}", "MaxAttemptsSource::get_max_attempts"],
    bounds="one request, max_attempts <= 3, <= 3 inner outcomes, backoff <= 10 s per retry",
    outside="max_attempts > 3; several requests sharing one budget (their interleavings act only through the budget: C08 + this per-request protocol); listeners",
    assumptions=["tokio::time::sleep replaced by the virtual-clock model; inner futures complete at their first poll", "the budget is a harness object answering try_withdraw symbolically (the real budgets are C08)"],
)

# ---------------------------------------------------------------------------
# C08 retry budgets
# ---------------------------------------------------------------------------
_c08 = lambda n, what, bound, **kw: H("budget::verif_kani_in_budget::" + n, RETRY, what, bound, models=("rand", "tokio"),
                                      features=("verif-hooks",), playback=False, **kw)
PROPS["C08"] = Prop(
    harnesses=[
        _c08("token_bucket_withdraw_linearizable", "every write of TokenBucketBudget::try_withdraw is an atomic withdraw on the value in the cell; grant iff write",
             "max_tokens <= 2^20, any initial <= max; <= 2 interferences (arbitrary values <= max) before any atomic step incl. spurious weak-CAS failure; CAS retries <= 4",
             timeout=600),
        _c08("token_bucket_deposit_linearizable", "every write of TokenBucketBudget::deposit is min(v+1, max) on the value in the cell (no lost withdrawal)",
             "as above", timeout=600),
        _c08("token_bucket_balance_view", "balance() reports the token count", "max <= 2^20", timeout=300),
        _c08("aimd_withdraw_linearizable", "AimdBudget::try_withdraw: atomic withdraw; AIMD limit stays in [min,max]",
             "max_budget <= 2^20, amounts 1..=8, arbitrary pre-balance, <= 2 interferences on balance and limit cells", timeout=600),
        _c08("aimd_deposit_linearizable", "AimdBudget::deposit: v' = min(v+amount, L), L in [min,max], on the value in the cell",
             "as above", timeout=600),
        _c08("aimd_builder_is_faithful", "public builder -> AIMD budget: starts full at max_budget, a retry costs withdraw_amount, a success credits deposit_amount (capped)",
             "max <= 1024, amounts 1..=8, sequential", timeout=600),
        _c08("token_bucket_builder_is_faithful", "public builder -> token bucket: initial tokens (default full), one token per retry, never above max_tokens",
             "max <= 1024, sequential", timeout=600),
        H("aimd::verif_kani_in_aimd_rg::aimd_every_write_in_bounds_under_interference", "tower-resilience-core",
          "guarantee side of the rely used above: every write of the AIMD limit (the budget's dynamic cap) stays in [min,max] under interference",
          "any config min <= max <= 2^32; <= 2 interfering writes", features=("verif-hooks",), playback=False, timeout=900),
    ],
    functions=["tower_resilience_retry::budget::TokenBucketBudget::{new,try_withdraw,deposit,balance}",
               "tower_resilience_retry::budget::AimdBudget::{new,try_withdraw,deposit,current_max}",
               "tower_resilience_core::aimd::AimdController::{new,limit,record_success,record_failure}",
               "tower_resilience_core::verif::atomic::{AtomicU64,AtomicUsize} (hook wrappers)"],
    bounds="balances/maxima <= 2^20 tokens, deposit/withdraw amounts 1..=8 (AIMD), at most 2 interfering writes by other threads per operation "
           "(each an arbitrary invariant-satisfying value = any number of concurrent operations by any number of threads), CAS loops unwound 4 times",
    outside="more than 2 interferences during ONE operation (a third retry of the CAS loop); memory-ordering effects weaker than sequential "
            "consistency (all accesses are Relaxed on a single cell, for which coherence gives a total modification order)",
    assumptions=["rely: other threads only leave values <= max (token bucket: multiples of 1000) in the balance cell and values in [min,max] in the AIMD limit cell",
                 "hook wrappers (feature verif-hooks) forward to the std atomics unchanged",
                 "composition (not solver-checked): every write is a specification action on the current value => every concurrent history is a sequential one"],
)

# ---------------------------------------------------------------------------
# C20 (defined last: it re-uses the protocol harnesses of the other properties)
# ---------------------------------------------------------------------------
_c20new = [
    H("verif_kani::c20::listeners_receive_every_event_in_order", CORE, "EventListeners::emit: every listener gets every event once, in order", "0..=3 listeners, 2 events", timeout=600),
    H("verif_kani::c01::listeners_only_observe", BH, "bulkhead call with two side-effecting listeners: outcome unchanged, both get every event", "one call, free slot, immediate inner", models=("tokio",), profile="service", playback=False, mem_gb=20, timeout=1500),
    H("verif_kani::c20::executor_transparent", EXEC, "executor layer: spawned once, forwarded once to the ready instance, result unchanged", "one call, <= 3 scheduling rounds", models=("tokio",), profile="service", playback=False, mem_gb=20, timeout=1500),
    H("verif_kani::c20::executor_readiness_passthrough", EXEC, "pending / failing inner readiness surfaces unchanged", "", models=("tokio",), profile="service", playback=False, mem_gb=20, timeout=900),
    H("verif_kani::c05::c20_retries_unready", RETRY, "KNOWN-FINDING witness: retries are not preceded by a readiness check", "2 attempts, zero backoff", models=("tokio", "rand"), profile="service", playback=False, mem_gb=24, timeout=1800, expect="known"),
    H("verif_kani::c16::c20_reconnect_retry_unready", RECONNECT, "KNOWN-FINDING witness: the retried call goes to a never-polled clone", "2 attempts, zero delay", models=("tokio", "rand"), profile="service", playback=False, mem_gb=24, timeout=1800, expect="known"),
    H("verif_kani::c12::c20_hedges_unready", HEDGE, "KNOWN-FINDING witness: hedged attempts go to never-polled clones", "parallel mode, 2 attempts", models=("tokio",), profile="service", playback=False, mem_gb=24, timeout=1800, expect="known"),
]
import copy as _copy
def _retier(h, tiers):
    h2 = _copy.copy(h)
    h2.tiers = tiers
    return h2
_c20refs_quick = [_ref("C03", "c03_call_wiring"), _ref("C17", "strategy_value"), _ref("C13", "in_flight_exact_one_call"), _ref("C02", "call_wiring"),
                  _ref("C03", "in_circuit::readiness_passthrough"), _ref("C06", "c06::readiness_passthrough"), _ref("C05", "c05::readiness_passthrough"), _ref("C16", "c16::readiness_passthrough"),
                  _ref("C19", "c19::readiness_passthrough"), _ref("C11", "c11::readiness_passthrough"), _ref("C01", "c01::readiness_passthrough"), _ref("C13", "readiness_passthrough_below_limit")]
_c20refs_thorough = [_ref("C01", "one_call_any_availability"), _ref("C11", "dropped_waiter_is_harmless"), _ref("C03", "c03_call_wiring_with_fallback"), _ref("C06", "cancel_fixed_timeout"), _ref("C06", "no_cancel_fixed_timeout"), _ref("C06", "cancel_huge_timeout"), _ref("C19", "one_request_all_rolls"),
                     _ref("C05", "plain"), _ref("C16", "custom_policy_predicate_retry"), _ref("C11", "leader_waiter_and_other_key"), _ref("C11", "lone_leader_dropped_key_reusable")]
PROPS["C20"] = Prop(
    harnesses=_c20new + [_retier(h, ("quick", "thorough")) for h in _c20refs_quick] + [_retier(h, ("thorough",)) for h in _c20refs_thorough],
    functions=["Service::{poll_ready,call} of bulkhead, circuit breaker (+fallback variant), rate limiter, time limiter, retry, fallback, hedge, reconnect, adaptive, coalesce, executor, chaos",
               "tower_resilience_core::events::EventListeners::{add,emit}"],
    bounds="one call per layer in its protocol harness (bounds as stated for C01/C02/C03/C05/C06/C11/C12/C13/C16/C17/C19); 0..=3 listeners",
    outside="cache layer (std HashMap, see C10); stacks of several layers (exceed the one-call budget); LISTENERS THAT PANIC (Kani has no unwinding; catch_unwind is stubbed by Ok(f())); "
            "readiness of retries / hedged attempts / reconnect retries is a recorded finding",
    assumptions=["inner service = strict contract checker: an instance is ready only after its own poll_ready returned Ready(Ok) and until its next call; Clone yields a not-ready instance",
                 "tokio / rand / hashbrown models as for the referenced properties"],
)

# ---------------------------------------------------------------------------
HOOK_COMMITS = ["b67d6cc440f8922972f92b38f6e06fc0ff45ba61"]
NOT_APPLICABLE = {
    "C12": "execute_with_hedging (tokio::spawn per attempt + mpsc + biased select! loop) is out of reach for CBMC beyond the FIRST poll of the call: with the tokio model, "
           "HedgeDelay::get_delay stubbed by a constant and a fully concrete schedule, every harness that polls the call a second time (7 variants, 2-4 attempts' polls, symbolic "
           "outcomes only) ran into the 25-50 minute cap at 10-13 GB; first-poll facts alone do not decide the property. The harnesses are kept in harness/tower-resilience-hedge/c12.rs "
           "(tiers=()); the premature all-attempts-failed defect found by reading was repaired (fix 4c4fb5a) but is not covered by a solver check (DESIGN.md 4/C12, 6)",
    "C10": "decided by the contents of std::collections::HashMap / lru::LruCache (hashbrown SwissTable + SipHash): two inserts with one "
           "symbolic key do not finish in CBMC in 10 minutes and std's map cannot be replaced by a model; a harness avoiding the "
           "containers would verify nothing the statement says (DESIGN.md section 6)",
}
MANIFEST_TEXT = {
    "C20": {"text": "Per-layer bounded model checking with an inner service that checks the Tower contract itself (ready only after its own poll_ready, clone = not ready): each layer's "
            "one-call protocol harness shows the request is forwarded exactly once, unchanged, to the instance that reported ready, and the response/error comes back unchanged in "
            "the pass-through variant; readiness pending/errors pass through (executor, adaptive); EventListeners::emit delivers every event to every listener once, in order, and a "
            "call with side-effecting listeners resolves as without them. Retries, hedged attempts and reconnect retries on never-polled instances are reported as KNOWN-FINDING.",
            "note": "NOT covered: listeners that panic (no unwinding in Kani; catch_unwind cannot even be compiled and is stubbed), the cache layer (std HashMap), stacks of layers. "
            "The quick tier runs a subset of the layers; the thorough tier all of them.",
            "design_ref": "DESIGN.md 4/C20"},
    "C06": {"text": "Bounded model checking of one call through the real TimeLimiter::call in both cancellation modes with symbolic timeout (fixed / per request) and symbolic inner latency "
            "(below, equal, above, never): the call is never pending at or after its deadline nor after the inner result is available; Timeout only at/after the deadline and (cancel mode) "
            "only if no inner result is available at that poll; inner results unchanged; cancel mode drops the inner call at the deadline, non-cancel mode leaves it alive in its "
            "spawned task and it runs to completion when scheduled.",
            "note": "2 polls per call; tokio timeout/sleep/spawn/oneshot are the model, select! is tokio's macro text. That the timer wakes the task AT the deadline is tokio's.", "design_ref": "DESIGN.md 4/C06"},
    "C11": {"text": "Bounded model checking of 3-4 requests over two keys through the real CoalesceService::call / CoalesceFuture::{poll,drop}: one inner call per key, waiters cause none, "
            "a waiter is pending while the leader runs and gets a clone of its result (ok or error) at its next poll after completion, LeaderCancelled at its next poll after the leader "
            "was dropped, the key is reusable at once, a dropped waiter is harmless, keys are independent.",
            "note": "hashbrown map replaced by an association-list model; broadcast by the tokio model; fixed arrival order (leader, waiter, other key); leader panic = drop only.", "design_ref": "DESIGN.md 4/C11"},
    "C12": {"text": "Bounded model checking of one hedged call through the real execute_with_hedging with the harness as runtime (any clock advance, any subset of attempt tasks scheduled before "
            "each poll), symbolic per-attempt latency and outcome: at most max attempts started, hedges no earlier than the delay after the previous start (all at once in parallel mode), "
            "resolves as soon as a successful attempt has delivered, the response is that of a successful attempt, AllAttemptsFailed only when every attempt was started and failed.",
            "note": "max_hedged_attempts 2 (quick) / 1..3 (thorough), 3-5 scheduling rounds; spawn/mpsc/sleep are the model, select! is tokio's macro text.", "design_ref": "DESIGN.md 4/C12"},
    "C16": {"text": "Bounded model checking of one request through the real ReconnectFuture state machine with symbolic outcome sequence, max_attempts, per-attempt delays (scripted policy), predicate "
            "on/off, retry_on_reconnect on/off and another request marking the shared state connected at arbitrary moments: at most max_attempts+1 calls, retries only after errors the "
            "predicate accepts and only after exactly the policy's delay, correct error variant wrapping the last error, Connected after success, not Connected during back-off and while "
            "the retried call is in flight.",
            "note": "ReconnectPolicy::delay_for_attempt is scripted (its values are C14); <= 4 polls; max_attempts <= 1 or unlimited.", "design_ref": "DESIGN.md 4/C16"},
    "C18": {"text": "SELECTION part only: bounded model checking of SelectionStrategy::select over real HealthCheckedContexts with all published status vectors of <= 3 resources: only "
            "healthy/degraded resources are returned, None iff none is usable, first-available/prefer-healthy orders, round-robin returns the cyclic successor among the eligible ones "
            "(hence even visiting), the custom selector sees the statuses.",
            "note": "The THRESHOLD clause (status flips after failure_threshold / success_threshold consecutive checks) is NOT covered: that logic is a closure nested in two tokio::spawn calls "
            "inside HealthCheckWrapper::start. RandomState::new is stubbed.", "design_ref": "DESIGN.md 4/C18"},
    "C01": {"text": "Assume/guarantee. Bounded model checking of ONE call through the real Bulkhead::call future against the semaphore's contract (environment "
            "model answering at the solver's choice), for every schedule of its polls, every clock value, every max_wait setting, every inner outcome and every "
            "drop point: the inner service is entered only while the caller holds a permit, the permit outlives the inner future, it is released exactly once on "
            "every exit, one semaphore of max_concurrent_calls permits per layer. With the semaphore contract (<= N permits outstanding) this gives <= N requests "
            "inside the inner service for any number of callers.",
            "note": "The composition step and the semaphore contract are not solver-checked; tokio is replaced by /verif/models/tokio (product of several call "
            "futures does not finish in CBMC). Panics: no unwinding in Kani; drop-at-any-point exercises the same RAII path. <= 3 polls per call.",
            "design_ref": "DESIGN.md 3.3, 4/C01"},
    "C07": {"text": "Same protocol harness as C01, assertions for capacity: after the call future is gone (completed with any outcome, or dropped before the first "
            "poll / while queued / while running) no permit is held and every granted permit was released exactly once; the caller asks for a slot at its first poll "
            "and enters the inner service in the very poll that grants it; while not granted it is pending for every instant before first-poll + max_wait and "
            "resolves to the Timeout error at the first poll at or after it; rejected and cancelled-while-waiting callers never reach the inner service.",
            "note": "As C01. 'Arrival' is the caller's first poll (tokio::time::timeout is armed there). FIFO fairness of the semaphore is tokio's, not checked.",
            "design_ref": "DESIGN.md 4/C07"},
    "C02": {"text": "Kernel: one try_acquire from an ARBITRARY window state (fixed, sliding log with 0..3 entries, sliding counter) with symbolic limit, period, timeout and "
            "clock (boundary instants included) is decided by the solver: windows are never refreshed/rotated before a full period, a grant consumes one of at most "
            "limit permits of the current window / needs fewer than limit unexpired grants, nothing else adds capacity. Protocol: the real acquire() future under "
            "arbitrary clock advances and interfering try_acquires of other callers is admitted iff its own try_acquire consumed a permit; RateLimiter::call forwards "
            "exactly the admitted calls.",
            "note": "Inductive step + composition (not solver-checked) instead of a product of several acquire() futures, which does not finish. f64 weights of the "
            "sliding counter are bit-exact in CBMC. Trusted: Kani/CBMC, virtual clock stubs, tokio sleep model.",
            "design_ref": "DESIGN.md 4/C02"},
    "C15": {"text": "Same harnesses as C02, assertions for timeliness: immediate grant iff the window has capacity; a wait is offered only if it fits timeout_duration and "
            "equals the time to the next window; rejection only when the needed wait exceeds the timeout; acquire() sleeps at most once and at most timeout_duration; "
            "a rejected caller took nothing and never reaches the inner service, an admitted one reaches it exactly once; after two idle periods capacity is full.",
            "note": "As C02.", "design_ref": "DESIGN.md 4/C15"},
    "C05": {"text": "Bounded model checking of ONE request through the real Retry::call future with symbolic outcome sequence (<= 3), max_attempts 0..=3 (fixed or per "
            "request), symbolic backoff per retry, symbolic budget grants, predicate on/off: attempts between 1 and max(1,max_attempts), stop at first success / refused "
            "error / refused grant / exhaustion, result == last outcome, before retry k it sleeps exactly the policy's backoff for k and is still pending at any instant "
            "before it elapsed, every retry preceded by a granted withdrawal, one deposit per success.",
            "note": "Interleavings of several requests act only through the shared budget (C08). tokio sleep is the virtual-clock model.", "design_ref": "DESIGN.md 4/C05"},
    "C13": {"text": "Kernel: every limit update of AimdController, the Aimd wrapper and Vegas from an ARBITRARY internal state with the limit in [min,max] stores a limit in "
            "[min,max] (each update is one load + one store, so this covers every interleaving of any number of threads); f64 decrease factors bit-exact. Service: one "
            "call through the real AdaptiveService with any number of calls in flight on other clones: readiness refused iff in_flight >= limit, the call counts from "
            "call() until completion, error or drop at any point and not after.",
            "note": "Limits <= 2^32. Panicking inner calls: same RAII guard as the drop path (no unwinding in Kani).", "design_ref": "DESIGN.md 4/C13"},
    "C17": {"text": "Bounded model checking of one request through the real Fallback::call for each of the six strategies, configuration built through the public builder "
            "with the predicate set before or after the strategy: success passes unchanged and triggers nothing; an error triggers the strategy exactly when the "
            "predicate accepts it (always without one); result is exactly the strategy's value for this request and this error; closures run exactly once.",
            "note": "All 32-bit request/response/error values; predicate = arbitrary bit-mask test.", "design_ref": "DESIGN.md 4/C17"},
    "C19": {"text": "Bounded model checking of one request through the real Chaos::call against a contract model of rand: for every error/latency rate in [0,1], every roll "
            "in [0,1), every latency range in whole ms and every seed: injected error => inner not called; rates 0 => transparent, no draw, no sleep; error rate 1 => always "
            "the injected error; injected latency in [min,max] (min when min>=max), whole ms, and the inner call only after it elapsed; only the seeded generator is used "
            "and the number of draws is a function of config and rolls; clones share one advancing stream and a replay with the same seed gives the same decisions.",
            "note": "That a seeded StdRng is itself deterministic is rand's contract (trusted).", "design_ref": "DESIGN.md 4/C19"},
    "C03": {
        "text": "Bounded model checking of the real Circuit state machine, one inductive step from an ARBITRARY open state (any window contents, "
                "any configuration, any clock value): try_acquire is false and leaves state and timer untouched for every instant before "
                "last_transition + wait_duration_in_open (boundary included) and moves to half-open afterwards; outcomes recorded while open "
                "never close the breaker or move the timer; every transition into open stamps the current instant (C04 step harness). Because "
                "every operation runs under the breaker mutex, one-step results from arbitrary states cover all histories and all numbers of callers.",
        "note": "Kernel level: 'try_acquire returned false => inner service untouched / fallback runs' is the call()-level wiring (lib.rs), covered by "
                "the protocol harness when present, otherwise by reading. Trusted: Kani/CBMC, Instant::now and catch_unwind stubs, the "
                "representation invariant used for arbitrary pre-states (window <= 3 entries).",
        "design_ref": "DESIGN.md 4/C03",
    },
    "C04": {
        "text": "Bounded model checking of every Circuit operation (record_success/failure, try_acquire, force_open, force_closed, reset) as one "
                "step from an arbitrary state of any kind (closed/open/half-open), both window types, all configurations in the bound: only the "
                "documented transitions happen, closed->open exactly when the post-window has minimum calls, is full (count-based) and a rate "
                "reaches its threshold (f64 compared bit-exactly), the count-based window holds the last N calls, every transition updates state, "
                "lock-free mirror, timer and counters together, reset empties the window, metrics() equals the window.",
        "note": "Inductive one-step formulation (multi-step harnesses over the VecDeque windows exhaust 16 GB of solver memory); the representation "
                "invariant of arbitrary pre-states is part of the claim; window sizes <= 3; custom classifier not covered at kernel level.",
        "design_ref": "DESIGN.md 4/C04",
    },
    "C09": {
        "text": "Inductive step (same harness family as C04) showing that with non-overlapping trial calls at most permitted_calls_in_half_open are "
                "admitted per half-open period and the breaker then decides; plus witness harnesses for the recorded finding: when admitted trial "
                "calls are still in flight further callers are admitted too (KNOWN-FINDING, not repaired).",
        "note": "The overlapping-callers clause of C09 does NOT hold on this tree (known_findings.json); the check reports it as KNOWN-FINDING and "
                "still fails on any other violation. Trusted as for C04.",
        "design_ref": "DESIGN.md 4/C09, 5",
    },
    "C08": {
        "text": "Rely/guarantee bounded model checking of the real try_withdraw/deposit code of both budgets with instrumented atomics: before every "
                "atomic step the solver may replace the balance (and the AIMD limit) by ANY invariant-satisfying value (= any number of concurrent "
                "operations by any number of threads) and may fail a weak CAS spuriously; every write the operation performs is shown to be one "
                "atomic specification action (withdraw: v>=c, v'=v-c, returns true; deposit: v'=min(v+a,cap)) on the value actually in the cell. "
                "Hence every interleaving is a sequential history and the conservation law and the cap follow by induction.",
        "note": "Trusted: Kani/CBMC; the verif-hooks atomic wrappers forward to std atomics; Relaxed accesses to a single cell are coherent; the "
                "composition step (all writes are spec actions => linearizable + conservation) is an argument, not a solver query; bound: <= 2 "
                "interferences per operation, balances <= 2^20.",
        "design_ref": "DESIGN.md 3.4, 4/C08",
        "technique": "bounded model checking (Kani/CBMC) of the real lock-free code under rely/guarantee interference injected at instrumented atomic steps",
    },
    "C14": {
        "text": "Bounded model checking of the real backoff functions: for every attempt in 0..=usize::MAX, every initial interval <= 10 days, "
                "every multiplier in [1,10] and every max_interval the SAT solver shows no panic/overflow is reachable and the delay never "
                "exceeds max_interval, whatever value powi returns; the exponent/base handed to powi are the attempt and the multiplier; "
                "with compiler-rt's __powidf2 transcribed bit-exactly the delay is non-decreasing for multiplier 2 and attempts < 4096 "
                "(thorough). Jittered variant: no panic for factors {0,0.1,0.5,1} with arbitrary draws. ReconnectPolicy wrappers included.",
        "note": "Trusted: Kani MIR->goto translation, CBMC float model (IEEE-754 RNE), the powi stubs (arbitrary value / __powidf2 "
                "transcription), the rand contract model (random_range returns any value in range). Exact-value equality and symbolic "
                "randomization factors did not finish in the solver and are outside the claim (evidence.outside_bounds).",
        "design_ref": "DESIGN.md 4/C14",
    },
}
