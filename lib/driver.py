"""Driver: overlay /repo, inject harnesses, run cargo-kani per harness, parse
CBMC's verdicts, replay counterexamples, write evidence."""
import argparse, concurrent.futures as cf, hashlib, json, os, re, shutil, signal
import subprocess, sys, time

VERIF = os.path.dirname(os.path.dirname(os.path.abspath(__file__)))
REPO = os.environ.get("VERIF_REPO", "/repo")
SCRATCH_ROOT = os.environ.get("VERIF_SCRATCH", "/var/tmp/verif-scratch")

sys.path.insert(0, os.path.join(VERIF, "lib"))
import registry  # noqa: E402

ENV = dict(os.environ)
ENV.update({"CARGO_NET_OFFLINE": "true", "CARGO_TERM_COLOR": "never"})
ENV.pop("RUSTUP_TOOLCHAIN", None)

SERVICE_FLAGS = ["-Z", "restrict-vtable",
                 "--no-default-checks", "--no-assertion-reach-checks"]
# --no-default-checks also switches Kani's unwinding checks off; they are re-enabled at the CBMC
# level so that a too-small unwind bound is an error, never a silent truncation.
SERVICE_CBMC = ["--max-field-sensitivity-array-size", "512", "--slice-formula", "--unwinding-assertions"]


def log(*a):
    print(*a, file=sys.stderr, flush=True)


# --------------------------------------------------------------------------
# overlay
# --------------------------------------------------------------------------
def make_overlay(prop, pkgs, models):
    """Copy /repo's current working tree and add harness modules + models."""
    root = os.path.join(SCRATCH_ROOT, f"{prop}-{os.getpid()}")
    if os.path.exists(root):
        shutil.rmtree(root)
    os.makedirs(root)
    ov = os.path.join(root, "ov")
    subprocess.check_call(["rsync", "-a", "--exclude", "/target", "--exclude", ".git",
                           REPO.rstrip("/") + "/", ov + "/"])
    for pkg in pkgs:
        src = os.path.join(VERIF, "harness", pkg)
        if pkg == "verif-harness":
            continue
        cr = os.path.join(ov, "crates", pkg, "src")
        dst = os.path.join(cr, "verif_kani")
        shutil.copytree(src, dst)
        common = os.path.join(VERIF, "harness", "common")
        for f in os.listdir(common):
            shutil.copy(os.path.join(common, f), os.path.join(dst, f))
        with open(os.path.join(cr, "lib.rs"), "a") as f:
            f.write("\n#[cfg(kani)]\n#[allow(warnings)]\nmod verif_kani;\n")
        # harness-only dependencies of the overlay copy of this package (e.g. the tokio model for
        # a crate that itself only has tokio as a dev-dependency)
        for dep in registry.EXTRA_DEPS.get(pkg, []):
            ct = os.path.join(ov, "crates", pkg, "Cargo.toml")
            with open(ct, "a") as f:
                f.write(f"\n[dependencies.{dep}]\nworkspace = true\n")
        # child modules of private modules (need access to private fields): append
        # `#[cfg(kani)] #[path] mod` to the named source file, nothing else is edited
        for srcfile, modfile, cfg in registry.INJECT.get(pkg, []):
            with open(os.path.join(cr, srcfile), "a") as f:
                name = "verif_kani_" + modfile.replace(".rs", "")
                f.write(f"\n#[cfg({cfg})]\n#[allow(warnings)]\n#[path = \"verif_kani/{modfile}\"]\npub(crate) mod {name};\n")
    cargo = os.path.join(ov, "Cargo.toml")
    txt = open(cargo).read()
    add = ""
    if models:
        add += "\n[patch.crates-io]\n"
        for m in models:
            mdst = os.path.join(root, "models", m)
            shutil.copytree(os.path.join(VERIF, "models", m), mdst)
            add += f'{m} = {{ path = "{mdst}" }}\n'
    # kani cfg is unknown to the workspace lints; harmless.
    with open(cargo, "w") as f:
        f.write(txt + add)
    return root, ov


# --------------------------------------------------------------------------
# running kani
# --------------------------------------------------------------------------
def kani_cmd(h, target_dir, extra=()):
    cmd = ["cargo", "kani", "-p", h.pkg, "--target-dir", target_dir]
    if h.features:
        cmd += ["--features", ",".join(h.features)]
    cmd += ["-Z", "stubbing", "-Z", "unstable-options"]
    if h.profile == "service":
        cmd += SERVICE_FLAGS
    cmd += list(h.kani_args)
    cmd += list(extra)
    return cmd


def cbmc_tail(h):
    args = []
    if h.profile == "service":
        args += SERVICE_CBMC
    args += list(h.cbmc_args)
    return (["--cbmc-args"] + args) if args else []


def run_limited(cmd, cwd, logpath, timeout, mem_gb):
    """Run under ulimit -v and a wall-clock cap; returns (rc, timed_out)."""
    sh = f"ulimit -v {int(mem_gb * 1024 * 1024)}; exec \"$@\""
    with open(logpath, "w") as lf:
        p = subprocess.Popen(["bash", "-c", sh, "bash"] + cmd, cwd=cwd, stdout=lf,
                             stderr=subprocess.STDOUT, env=ENV, start_new_session=True)
        try:
            rc = p.wait(timeout=timeout)
            return rc, False
        except subprocess.TimeoutExpired:
            try:
                os.killpg(p.pid, signal.SIGKILL)
            except ProcessLookupError:
                pass
            p.wait()
            return -9, True


CHECK_RE = re.compile(
    r"^Check (\d+): (.+)\n\s+- Status: (\w+)\n\s+- Description: \"(.*)\"(?:\n\s+- Location: (.*))?",
    re.M)


def parse_log(text):
    r = {"checks": [], "verdict": None}
    for m in CHECK_RE.finditer(text):
        r["checks"].append({"n": int(m.group(1)), "name": m.group(2), "status": m.group(3),
                            "desc": m.group(4), "loc": (m.group(5) or "").strip()})
    m = re.search(r"^VERIFICATION:- (\w+)", text, re.M)
    if m:
        r["verdict"] = m.group(1)
    r["solver_s"] = round(sum(float(x) for x in re.findall(r"Runtime Solver: ([0-9.e+-]+)s", text)), 3)
    r["decision_s"] = round(sum(float(x) for x in re.findall(r"Runtime decision procedure: ([0-9.e+-]+)s", text)), 3)
    m = re.search(r"Runtime Symex: ([0-9.e+-]+)s", text)
    r["symex_s"] = float(m.group(1)) if m else None
    m = re.search(r"Generated (\d+) VCC\(s\), (\d+) remaining", text)
    r["vccs"] = [int(m.group(1)), int(m.group(2))] if m else None
    m = re.findall(r"(\d+) variables, (\d+) clauses", text)
    r["sat_size"] = [int(m[-1][0]), int(m[-1][1])] if m else None
    r["queries"] = len(re.findall(r"SAT checker: instance is", text))
    m = re.search(r"Verification Time: ([0-9.]+)s", text)
    r["verif_time_s"] = float(m.group(1)) if m else None
    r["stubs"] = re.findall(r"- Stub: (.*)", text)
    r["build_error"] = bool(re.search(r"^error(\[E\d+\])?:", text, re.M)) and r["verdict"] is None
    r["oom"] = ("std::bad_alloc" in text or "Out of memory" in text or "memory exhausted" in text
                or "ran out of memory" in text or "run out of memory" in text or "Solver ran out" in text)
    r["unsupported"] = [c for c in r["checks"] if "unsupported" in c["desc"].lower() or
                        "is not currently supported" in c["desc"]]
    return r


def classify(h, pr, rc, timed_out):
    """Return (state, detail).  state in ok|fail|inconclusive."""
    if timed_out:
        return "inconclusive", f"timeout after {h.timeout}s"
    if pr["verdict"] is None:
        if pr["oom"]:
            return "inconclusive", "solver out of memory"
        if pr["build_error"]:
            return "inconclusive", "harness did not compile against the current tree"
        return "inconclusive", f"no verdict (rc={rc})"
    if pr["oom"]:
        return "inconclusive", "solver out of memory"
    fails = [c for c in pr["checks"] if c["status"] == "FAILURE"]
    covers = [c for c in pr["checks"] if c["name"].split(".")[-2:-1] == ["cover"] or ".cover." in c["name"]]
    bad_cov = [c for c in covers if c["status"] != "SATISFIED"]
    undet = [c for c in pr["checks"] if c["status"] in ("UNDETERMINED", "ERROR")]
    if pr["verdict"] == "SUCCESSFUL":
        if bad_cov:
            return "inconclusive", "vacuity: cover not satisfied: " + "; ".join(c["desc"] for c in bad_cov)
        return "ok", ""
    # FAILED
    unwind = [c for c in fails if "unwinding assertion" in c["desc"]]
    unsup = [c for c in fails if c in pr["unsupported"]]
    sem = [c for c in fails if c not in unwind and c not in unsup]
    if sem:
        return "fail", sem
    if unwind:
        return "inconclusive", "unwinding assertion failed (bound too small): " + unwind[0]["loc"]
    if unsup:
        return "inconclusive", "unsupported construct reached: " + unsup[0]["desc"]
    if undet or pr["oom"]:
        return "inconclusive", "undetermined checks / solver error"
    if bad_cov:
        return "inconclusive", "vacuity: cover not satisfied: " + "; ".join(c["desc"] for c in bad_cov)
    return "inconclusive", "FAILED without failing check"


def run_harness(h, ov, base_target, workdir):
    tdir = os.path.join(workdir, "tgt-" + h.short)
    subprocess.check_call(["cp", "-a", base_target, tdir])
    logpath = os.path.join(workdir, h.short + ".log")
    cmd = kani_cmd(h, tdir, ["--harness", h.name, "--exact"]) + cbmc_tail(h)
    t0 = time.time()
    rc, to = run_limited(cmd, ov, logpath, h.timeout, h.mem_gb)
    wall = time.time() - t0
    text = open(logpath, errors="replace").read()
    pr = parse_log(text)
    state, detail = classify(h, pr, rc, to)
    if state != "ok":
        # keep the log of anything that is not a clean pass (debugging aid; build/ is not tracked)
        d = os.path.join(VERIF, "build", "lastlogs")
        os.makedirs(d, exist_ok=True)
        try:
            shutil.copy(logpath, os.path.join(d, h.short + ".log"))
        except OSError:
            pass
    return {"h": h, "rc": rc, "timed_out": to, "wall": wall, "parsed": pr, "state": state,
            "detail": detail, "log": logpath, "tdir": tdir, "cmd": " ".join(cmd)}


# --------------------------------------------------------------------------
# replay of counterexamples (Kani concrete playback, native execution)
# --------------------------------------------------------------------------
def playback(h, ov, res, workdir, prop):
    """Ask Kani for the concrete values of the counterexample, add the
    generated unit test to the overlay and run it natively against the real
    code.  Returns (reproduced: bool|None, replay_path)."""
    os.makedirs(os.path.join(VERIF, "replays", prop), exist_ok=True)
    rp = os.path.join(VERIF, "replays", prop, h.short + ".json")
    rec = {"property": prop, "harness": h.name, "pkg": h.pkg, "profile": h.profile,
           "failing_checks": [{"desc": c["desc"], "loc": c["loc"]} for c in res["detail"]],
           "kani_cmd": res["cmd"]}
    logpath = os.path.join(workdir, h.short + ".playback-gen.log")
    cmd = kani_cmd(h, res["tdir"], ["--harness", h.name, "--exact", "-Z", "concrete-playback",
                                   "--concrete-playback=inplace"]) + cbmc_tail(h)
    rc, to = run_limited(cmd, ov, logpath, h.timeout, h.mem_gb)
    text = open(logpath, errors="replace").read()
    m = re.search(r"(kani_concrete_playback_[A-Za-z0-9_]+)", text)
    if not m:
        rec["playback"] = "no concrete playback test generated"
        json.dump(rec, open(rp, "w"), indent=1)
        return None, rp
    test = m.group(1)
    rec["test_name"] = test
    # collect the generated source for the record
    srcdir = os.path.join(ov, "crates", h.pkg, "src", "verif_kani")
    for root, _, files in os.walk(srcdir):
        for f in files:
            s = open(os.path.join(root, f)).read()
            i = s.find("fn " + test)
            if i >= 0:
                j = s.rfind("#[test]", 0, i)
                rec["test_source"] = s[j:s.find("\n}\n", i) + 3]
    outcomes = {}
    for prof in ("dev", "release"):
        plog = os.path.join(workdir, f"{h.short}.playback-{prof}.log")
        cmd = ["cargo", "kani", "playback", "-Z", "concrete-playback", "-p", h.pkg, "--lib"]
        if h.features:
            cmd += ["--features", ",".join(h.features)]
        if prof == "release":
            cmd += ["--release"]
        cmd += ["--", test, "--exact" if False else "--nocapture"]
        env = dict(ENV)
        env["CARGO_TARGET_DIR"] = os.path.join(workdir, "tgt-playback")
        with open(plog, "w") as lf:
            try:
                p = subprocess.run(cmd, cwd=ov, stdout=lf, stderr=subprocess.STDOUT, env=env, timeout=900)
                prc = p.returncode
            except subprocess.TimeoutExpired:
                prc = -9
        t = open(plog, errors="replace").read()
        if re.search(r"test result: FAILED", t) or re.search(rf"{test} \.\.\. FAILED", t):
            outcomes[prof] = "reproduced"
        elif re.search(r"test result: ok\. 1 passed", t):
            outcomes[prof] = "not reproduced"
        else:
            outcomes[prof] = f"playback error rc={prc}"
        rec.setdefault("playback_tail", {})[prof] = t[-1500:]
    rec["playback"] = outcomes
    json.dump(rec, open(rp, "w"), indent=1)
    if any(v == "reproduced" for v in outcomes.values()):
        return True, rp
    if any(v == "not reproduced" for v in outcomes.values()):
        return False, rp
    return None, rp


# --------------------------------------------------------------------------
def load_known():
    p = os.path.join(VERIF, "known_findings.json")
    if not os.path.exists(p):
        return {"findings": [], "fixed": []}
    return json.load(open(p))


def tag_of(desc):
    m = re.search(r"\[([A-Z]\d\d\.[A-Za-z0-9_.-]+)\]", desc)
    return m.group(1) if m else None


def main(argv):
    ap = argparse.ArgumentParser()
    ap.add_argument("prop", nargs="?")
    ap.add_argument("--tier", default=os.environ.get("VERIF_TIER", "quick"))
    ap.add_argument("--only", action="append")
    ap.add_argument("--keep", action="store_true")
    ap.add_argument("--jobs", type=int, default=int(os.environ.get("VERIF_JOBS", "12")))
    ap.add_argument("--replay")
    ap.add_argument("--no-evidence", action="store_true")
    ap.add_argument("--extras-only", action="store_true", help="thorough tier minus the harnesses that are also in the quick tier (validation aid)")
    a = ap.parse_args(argv)
    if a.replay:
        return replay_cmd(a.replay, a)
    if a.prop not in registry.PROPS:
        log(f"unknown property {a.prop}")
        return 2
    tier = a.tier if a.tier in ("quick", "thorough") else "quick"
    seed = int(os.environ.get("VERIF_SEED", "0") or 0)
    P = registry.PROPS[a.prop]
    hs = [h for h in P.harnesses if tier in h.tiers]
    if a.only:
        hs = [h for h in hs if any(o in h.name for o in a.only)]
    if a.extras_only:
        hs = [h for h in hs if "quick" not in h.tiers]
        if not hs:
            log(f"[{a.prop}] no thorough-only harnesses")
            return 0
    t0 = time.time()
    pkgs = sorted({h.pkg for h in hs})
    models = sorted({m for h in hs for m in h.models})
    root, ov = make_overlay(a.prop, pkgs, models)
    results = []
    rc_final = 0
    try:
        # one warm build per (pkg, profile, features) group, then per-harness runs
        groups = {}
        for h in hs:
            groups.setdefault((h.pkg, h.profile, tuple(h.features), tuple(h.kani_args)), []).append(h)
        bases = {}
        for key, ghs in groups.items():
            base = os.path.join(root, "base-" + hashlib.sha1(repr(key).encode()).hexdigest()[:8])
            blog = base + ".log"
            cmd = kani_cmd(ghs[0], base, ["--only-codegen"])
            rc, to = run_limited(cmd, ov, blog, 1200, 16)
            if rc != 0:
                log(open(blog, errors="replace").read()[-4000:])
                log(f"[{a.prop}] build of harness package {key[0]} failed against the current tree")
                for h in ghs:
                    results.append({"h": h, "state": "inconclusive", "detail": "harness build failed",
                                    "wall": 0, "parsed": parse_log(""), "log": blog, "cmd": " ".join(cmd)})
                continue
            bases[key] = base
        todo = [(h, bases[k]) for k, ghs in groups.items() if k in bases for h in ghs]
        # heaviest first
        todo.sort(key=lambda x: -x[0].timeout)
        # memory-aware parallelism: service-profile harnesses need 10-25 GB each
        heavy = any(h.mem_gb >= 20 for h, _ in todo)
        workers = max(1, min(a.jobs, P.jobs, 3 if heavy else 12))
        with cf.ThreadPoolExecutor(max_workers=workers) as ex:
            futs = [ex.submit(run_harness, h, ov, b, root) for h, b in todo]
            for f in cf.as_completed(futs):
                r = f.result()
                results.append(r)
                log(f"[{a.prop}] {r['h'].name}: {r['state']} ({r['wall']:.0f}s)"
                    + (f" -- {r['detail'] if isinstance(r['detail'], str) else [c['desc'] for c in r['detail']]}" if r['state'] != 'ok' else ""))
        rc_final, report = decide(a.prop, results, ov, root)
        if not a.no_evidence and not a.only:
            write_evidence(a.prop, tier, seed, P, results, report, time.time() - t0, rc_final)
        for line in report["lines"]:
            print(line, flush=True)
    finally:
        if not a.keep:
            shutil.rmtree(root, ignore_errors=True)
        else:
            log("kept " + root)
    return rc_final


def decide(prop, results, ov, root):
    known = load_known()
    ktags = {(k["property"], k["tag"]) for k in known.get("findings", [])}
    lines, violations, inconclusive, known_hits = [], [], [], []
    for r in sorted(results, key=lambda r: r["h"].name):
        h = r["h"]
        if h.expect == "pass":
            if r["state"] == "ok":
                continue
            if r["state"] == "inconclusive":
                inconclusive.append(f"{h.name}: {r['detail']}")
                continue
            # fail: failing semantic checks; split known / new
            new = [c for c in r["detail"] if (prop, tag_of(c["desc"])) not in ktags]
            old = [c for c in r["detail"] if (prop, tag_of(c["desc"])) in ktags]
            for c in old:
                known_hits.append((tag_of(c["desc"]), h.name))
            if new:
                r2 = dict(r)
                r2["detail"] = new
                rep, rp = (None, None)
                if h.playback:
                    rep, rp = playback(h, ov, r2, root, prop)
                else:
                    rp = save_trace(h, r2, prop)
                    rep = True if h.trust_trace else None
                if rep is True:
                    violations.append((h.name, rp, [c["desc"] for c in new]))
                elif rep is False:
                    inconclusive.append(f"{h.name}: counterexample did not reproduce natively (encoding fault?) see {rp}")
                else:
                    # no native replay available for this harness: report with the solver trace
                    violations.append((h.name, rp, [c["desc"] for c in new]))
        elif h.expect == "fail":   # canary: negated assertion must be refuted
            if r["state"] == "fail":
                continue
            inconclusive.append(f"canary {h.name} was not refuted: {r['state']} {r['detail'] if isinstance(r['detail'], str) else ''}")
        elif h.expect == "known":  # witness of a recorded finding
            if r["state"] == "fail":
                new = [c for c in r["detail"] if (prop, tag_of(c["desc"])) not in ktags]
                for c in r["detail"]:
                    if (prop, tag_of(c["desc"])) in ktags:
                        known_hits.append((tag_of(c["desc"]), h.name))
                if new:
                    rp = save_trace(h, dict(r, detail=new), prop)
                    violations.append((h.name, rp, [c["desc"] for c in new]))
            elif r["state"] == "ok":
                log(f"[{prop}] note: recorded finding witnessed by {h.name} no longer reproduces")
            else:
                inconclusive.append(f"{h.name}: {r['detail']}")
    seen = set()
    for tag, hn in known_hits:
        if tag in seen:
            continue
        seen.add(tag)
        what = next((k["what"] for k in known["findings"] if k["property"] == prop and k["tag"] == tag), "")
        lines.append(f"KNOWN-FINDING: property={prop} {tag} {what} (harness {hn})")
    rc = 0
    for hn, rp, descs in violations:
        lines.append(f"VIOLATION property={prop} replay={rp}")
        log(f"[{prop}] violation in {hn}: {descs}")
        rc = 1
    if rc == 0 and inconclusive:
        for i in inconclusive:
            log(f"[{prop}] INCONCLUSIVE {i}")
        rc = 2
    return rc, {"lines": lines, "violations": violations, "inconclusive": inconclusive,
                "known": sorted(seen)}


def save_trace(h, r, prop):
    os.makedirs(os.path.join(VERIF, "replays", prop), exist_ok=True)
    rp = os.path.join(VERIF, "replays", prop, h.short + ".json")
    rec = {"property": prop, "harness": h.name, "pkg": h.pkg,
           "failing_checks": [{"desc": c["desc"], "loc": c["loc"]} for c in r["detail"]],
           "kani_cmd": r["cmd"], "playback": "not available for this harness (uses Kani stubs); "
           "re-run the harness with ./check --replay to regenerate the solver trace"}
    json.dump(rec, open(rp, "w"), indent=1)
    return rp


def replay_cmd(path, a):
    rec = json.load(open(path))
    prop = rec["property"]
    P = registry.PROPS[prop]
    hs = [h for h in P.harnesses if h.name == rec["harness"]]
    if not hs:
        log("harness not found")
        return 2
    h = hs[0]
    root, ov = make_overlay(prop + "-replay", [h.pkg], sorted(h.models))
    try:
        base = os.path.join(root, "base")
        rc, to = run_limited(kani_cmd(h, base, ["--only-codegen"]), ov, base + ".log", 1200, 16)
        r = run_harness(h, ov, base, root)
        print(f"harness {h.name}: {r['state']}")
        if r["state"] == "fail":
            for c in r["detail"]:
                print("  failing:", c["desc"], c["loc"])
            if h.playback:
                rep, rp = playback(h, ov, r, root, prop)
                print("native playback:", json.load(open(rp)).get("playback"))
            return 1
        return 0 if r["state"] == "ok" else 2
    finally:
        shutil.rmtree(root, ignore_errors=True)


def write_evidence(prop, tier, seed, P, results, report, wall, rc):
    os.makedirs(os.path.join(VERIF, "evidence"), exist_ok=True)
    per = []
    oblig = disch = queries = 0
    solver = 0.0
    samples = []
    for r in sorted(results, key=lambda r: r["h"].name):
        h, pr = r["h"], r["parsed"]
        sem = [c for c in pr["checks"] if "[" + prop[0] in c["desc"] or ".cover." in c["name"]]
        n_checks = len(pr["checks"])
        n_ok = len([c for c in pr["checks"] if c["status"] in ("SUCCESS", "SATISFIED")])
        # an obligation = one harness with its expected verdict
        oblig += 1
        good = (r["state"] == "ok" and h.expect == "pass") or (r["state"] == "fail" and h.expect in ("fail", "known"))
        disch += 1 if good else 0
        queries += pr.get("queries") or 0
        solver += pr.get("decision_s") or 0
        per.append({
            "harness": h.name, "package": h.pkg, "role": h.expect, "profile": h.profile,
            "what": h.what, "bound": h.bound, "state": r["state"],
            "detail": r["detail"] if isinstance(r["detail"], str) else [c["desc"] for c in r["detail"]],
            "cbmc_checks": n_checks, "cbmc_checks_ok": n_ok,
            "semantic_assertions_and_covers": sorted({c["desc"] for c in sem}),
            "vccs_generated_remaining": pr.get("vccs"), "sat_vars_clauses": pr.get("sat_size"),
            "solver_queries": pr.get("queries"), "solver_s": pr.get("solver_s"),
            "decision_procedure_s": pr.get("decision_s"), "symex_s": pr.get("symex_s"),
            "stubs_applied": pr.get("stubs"), "wall_s": round(r["wall"], 1),
            "cmd": r.get("cmd"),
        })
        for c in sem[:3]:
            samples.append({"harness": h.name, "obligation": c["desc"], "status": c["status"]})
    distinct = len({(p["harness"], s) for p in per for s in p["semantic_assertions_and_covers"]})
    ev = {
        "property_id": prop, "tier": tier, "seed": seed, "level": "model_checking",
        "coverage": {
            "evaluations": sum(p["cbmc_checks"] for p in per),
            "distinct_nontrivial": distinct,
            "rule": "evaluations = CBMC property checks decided by the SAT solver over the compiled "
                    "repository code in this run (each holds for every value of the symbolic inputs within the "
                    "harness bound); distinct_nontrivial = distinct hand-written semantic assertions and "
                    "reachability covers among them (auto-generated overflow/pointer checks excluded)",
            "obligations": oblig, "discharged": disch,
            "samples": samples[:12] or [{"note": "no semantic checks parsed"}],
            "functions_encoded": P.functions, "bounds": P.bounds, "outside_bounds": P.outside,
            "solver_queries": queries, "solver_time_s": round(solver, 2),
            "harnesses": per,
            "known_findings_reported": report["known"],
            "inconclusive": report["inconclusive"],
            "engine": "Kani 0.68.0 -> CBMC 6.11.0 -> CaDiCaL (SAT); encoding regenerated from /repo working tree",
            "exhaustive": False,
            "exit_code": rc,
        },
        "assumptions": P.assumptions,
        "wall_s": round(wall, 1),
        "violations": len(report["violations"]),
    }
    with open(os.path.join(VERIF, "evidence", prop + ".json"), "w") as f:
        json.dump(ev, f, indent=1)
