//! Verification hooks (cargo feature `verif-hooks`, off by default).
//!
//! Transparent wrappers around the std atomics that announce every atomic
//! operation through [`atomic_event`] *before* it is performed.  In a normal
//! build this module does not exist.  With the feature on and no harness
//! installed, `atomic_event` is an empty function, so behaviour is unchanged.
//! A model-checking harness replaces `atomic_event` (Kani function stubbing)
//! to inject interference from other threads at exactly these points and to
//! observe the operation's operands.

/// The atomic operation about to be performed on a cell.
#[derive(Debug, Clone, Copy, PartialEq, Eq)]
pub enum AtomicOp {
    /// `load`
    Load,
    /// `store(new)`
    Store {
        /// value about to be stored
        new: u64,
    },
    /// `compare_exchange[_weak](expected, new)`
    Cas {
        /// expected current value
        expected: u64,
        /// replacement value
        new: u64,
        /// `compare_exchange_weak` (may fail spuriously)
        weak: bool,
    },
    /// `fetch_add(delta)`
    FetchAdd {
        /// addend
        delta: u64,
    },
    /// `fetch_sub(delta)`
    FetchSub {
        /// subtrahend
        delta: u64,
    },
}

/// Called immediately before every atomic operation of the wrappers below.
/// `cell` is the address of the underlying std atomic.  Returning `true` asks a
/// weak compare-exchange to fail spuriously; it is ignored by all other
/// operations.  The default implementation does nothing.
#[inline(never)]
pub fn atomic_event(_cell: usize, _op: AtomicOp) -> bool {
    false
}

/// Drop-in replacements for `std::sync::atomic::{AtomicU64, AtomicUsize, Ordering}`.
pub mod atomic {
    use super::{atomic_event, AtomicOp};
    pub use std::sync::atomic::Ordering;

    macro_rules! wrapper {
        ($name:ident, $std:ty, $int:ty) => {
            /// Instrumented atomic integer; see the module documentation.
            #[derive(Debug, Default)]
            pub struct $name($std);

            impl $name {
                /// Creates a new atomic integer.
                pub const fn new(v: $int) -> Self {
                    Self(<$std>::new(v))
                }

                /// Address of the underlying cell (identifies it in `atomic_event`).
                pub fn addr(&self) -> usize {
                    &self.0 as *const $std as usize
                }

                /// See the std documentation.
                pub fn load(&self, order: Ordering) -> $int {
                    atomic_event(self.addr(), AtomicOp::Load);
                    self.0.load(order)
                }

                /// See the std documentation.
                pub fn store(&self, v: $int, order: Ordering) {
                    atomic_event(self.addr(), AtomicOp::Store { new: v as u64 });
                    self.0.store(v, order)
                }

                /// See the std documentation.
                pub fn compare_exchange(
                    &self,
                    current: $int,
                    new: $int,
                    success: Ordering,
                    failure: Ordering,
                ) -> Result<$int, $int> {
                    atomic_event(
                        self.addr(),
                        AtomicOp::Cas { expected: current as u64, new: new as u64, weak: false },
                    );
                    self.0.compare_exchange(current, new, success, failure)
                }

                /// See the std documentation.
                pub fn compare_exchange_weak(
                    &self,
                    current: $int,
                    new: $int,
                    success: Ordering,
                    failure: Ordering,
                ) -> Result<$int, $int> {
                    let spurious = atomic_event(
                        self.addr(),
                        AtomicOp::Cas { expected: current as u64, new: new as u64, weak: true },
                    );
                    if spurious {
                        return Err(self.0.load(failure));
                    }
                    self.0.compare_exchange(current, new, success, failure)
                }

                /// See the std documentation.
                pub fn fetch_add(&self, v: $int, order: Ordering) -> $int {
                    atomic_event(self.addr(), AtomicOp::FetchAdd { delta: v as u64 });
                    self.0.fetch_add(v, order)
                }

                /// See the std documentation.
                pub fn fetch_sub(&self, v: $int, order: Ordering) -> $int {
                    atomic_event(self.addr(), AtomicOp::FetchSub { delta: v as u64 });
                    self.0.fetch_sub(v, order)
                }

                /// See the std documentation (implemented as a load / weak-CAS loop,
                /// exactly as in std).
                pub fn fetch_update<F>(
                    &self,
                    set_order: Ordering,
                    fetch_order: Ordering,
                    mut f: F,
                ) -> Result<$int, $int>
                where
                    F: FnMut($int) -> Option<$int>,
                {
                    let mut prev = self.load(fetch_order);
                    while let Some(next) = f(prev) {
                        match self.compare_exchange_weak(prev, next, set_order, fetch_order) {
                            x @ Ok(_) => return x,
                            Err(next_prev) => prev = next_prev,
                        }
                    }
                    Err(prev)
                }
            }
        };
    }

    wrapper!(AtomicU64, std::sync::atomic::AtomicU64, u64);
    wrapper!(AtomicUsize, std::sync::atomic::AtomicUsize, usize);
}
