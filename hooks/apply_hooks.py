#!/usr/bin/env python3
"""One-shot helper used to create the `verif-hooks` commit in /repo (kept for the record)."""
import re, shutil, sys
R = sys.argv[1] if len(sys.argv) > 1 else "/repo"
def edit(path, fn):
    p = f"{R}/{path}"; s = open(p).read(); t = fn(s); assert t != s, path; open(p, "w").write(t)
shutil.copy("/verif/hooks/verif.rs", f"{R}/crates/tower-resilience-core/src/verif.rs")
edit("crates/tower-resilience-core/src/lib.rs", lambda s: s.replace(
    "pub mod aimd;\n", "pub mod aimd;\n#[cfg(feature = \"verif-hooks\")]\npub mod verif;\n", 1))
edit("crates/tower-resilience-core/Cargo.toml", lambda s: s.replace(
    "[dev-dependencies]", "# Verification instrumentation (instrumented atomics); never enabled in normal builds\nverif-hooks = []\n\n[dev-dependencies]", 1))
edit("crates/tower-resilience-retry/Cargo.toml", lambda s: s.rstrip("\n") +
     "\n# Verification instrumentation (instrumented atomics); never enabled in normal builds\nverif-hooks = [\"tower-resilience-core/verif-hooks\"]\n")
edit("crates/tower-resilience-retry/src/budget.rs", lambda s: s.replace(
    "use std::sync::atomic::{AtomicU64, Ordering};\n",
    "#[cfg(not(feature = \"verif-hooks\"))]\nuse std::sync::atomic::{AtomicU64, Ordering};\n"
    "#[cfg(feature = \"verif-hooks\")]\nuse tower_resilience_core::verif::atomic::{AtomicU64, Ordering};\n", 1))
edit("crates/tower-resilience-core/src/aimd.rs", lambda s: s.replace(
    "use std::sync::atomic::{AtomicUsize, Ordering};\n",
    "#[cfg(not(feature = \"verif-hooks\"))]\nuse std::sync::atomic::{AtomicUsize, Ordering};\n"
    "#[cfg(feature = \"verif-hooks\")]\nuse crate::verif::atomic::{AtomicUsize, Ordering};\n", 1))
edit("crates/tower-resilience-core/src/aimd.rs", lambda s: s.replace(
    "impl Clone for AimdController {",
    "#[cfg(feature = \"verif-hooks\")]\nimpl AimdController {\n    /// Address of the limit cell (identifies it for verification harnesses).\n"
    "    pub fn limit_cell_addr(&self) -> usize {\n        self.limit.addr()\n    }\n}\n\nimpl Clone for AimdController {", 1))
print("hooks applied")
