//! Scenario = a small script of steps; each step's observable result is recorded as a
//! string.  `real` runs it on tokio's paused clock, `model` on the model's virtual clock.
use std::future::Future;
use std::pin::Pin;
use std::task::{Context, Poll, Waker};
use std::time::Duration;

fn poll_once<F: Future + ?Sized>(f: Pin<&mut F>) -> Poll<F::Output> {
    let mut cx = Context::from_waker(Waker::noop());
    f.poll(&mut cx)
}
fn ms(n: u64) -> Duration {
    Duration::from_millis(n)
}

// ---------------------------------------------------------------- timeout / sleep
/// inner completes after `lat` ms, timeout `to` ms, polls at the given instants
fn timeout_model(lat: u64, to: u64, polls: &[u64]) -> Vec<String> {
    use model_tokio::{model, time};
    model::set_now(Duration::from_secs(1000));
    let t0 = model::now();
    let mut fut = Box::pin(time::timeout(ms(to), time::sleep(ms(lat))));
    let mut out = vec![];
    for &p in polls {
        model::set_now(t0 + ms(p));
        match poll_once(fut.as_mut()) {
            Poll::Pending => out.push("pending".to_string()),
            Poll::Ready(Ok(())) => {
                out.push("ok".to_string());
                break;
            }
            Poll::Ready(Err(_)) => {
                out.push("elapsed".to_string());
                break;
            }
        }
    }
    out
}
fn timeout_real(lat: u64, to: u64, polls: &[u64]) -> Vec<String> {
    let rt = real_tokio::runtime::Builder::new_current_thread().enable_time().start_paused(true).build().unwrap();
    rt.block_on(async {
        use real_tokio::time;
        let mut fut = Box::pin(time::timeout(ms(to), time::sleep(ms(lat))));
        let mut out = vec![];
        let mut now = 0u64;
        for &p in polls {
            time::advance(ms(p - now)).await;
            now = p;
            match poll_once(fut.as_mut()) {
                Poll::Pending => out.push("pending".to_string()),
                Poll::Ready(Ok(())) => {
                    out.push("ok".to_string());
                    break;
                }
                Poll::Ready(Err(_)) => {
                    out.push("elapsed".to_string());
                    break;
                }
            }
        }
        out
    })
}

#[test]
fn timeout_and_sleep_agree() {
    // (latency, timeout, poll instants) — below / at / above the deadline, late polls, zero durations
    let cases: &[(u64, u64, &[u64])] = &[
        (50, 100, &[0, 49, 50]),
        (50, 100, &[0, 200]),
        (100, 100, &[0, 99, 100]),
        (150, 100, &[0, 99, 100]),
        (150, 100, &[0, 100]),
        (150, 100, &[0, 500]),
        (0, 100, &[0]),
        (5, 0, &[0, 1, 5]),
        (0, 0, &[0]),
        (10, 20, &[0, 5, 9, 10]),
    ];
    for (lat, to, polls) in cases {
        assert_eq!(timeout_model(*lat, *to, polls), timeout_real(*lat, *to, polls), "timeout scenario lat={lat} to={to} polls={polls:?}");
    }
}

// ---------------------------------------------------------------- oneshot
#[test]
fn oneshot_agrees() {
    fn model(send: bool, drop_tx: bool) -> Vec<String> {
        let (tx, mut rx) = model_tokio::sync::oneshot::channel::<u32>();
        let mut out = vec![format!("{:?}", poll_once(Pin::new(&mut rx)).map(|r| r.ok()))];
        if send {
            out.push(format!("{:?}", tx.send(7)));
        } else if drop_tx {
            drop(tx);
        } else {
            std::mem::forget(tx);
        }
        out.push(format!("{:?}", poll_once(Pin::new(&mut rx)).map(|r| r.ok())));
        out
    }
    fn real(send: bool, drop_tx: bool) -> Vec<String> {
        let (tx, mut rx) = real_tokio::sync::oneshot::channel::<u32>();
        let mut out = vec![format!("{:?}", poll_once(Pin::new(&mut rx)).map(|r| r.ok()))];
        if send {
            out.push(format!("{:?}", tx.send(7)));
        } else if drop_tx {
            drop(tx);
        } else {
            std::mem::forget(tx);
        }
        out.push(format!("{:?}", poll_once(Pin::new(&mut rx)).map(|r| r.ok())));
        out
    }
    for (s, d) in [(true, false), (false, true), (false, false)] {
        assert_eq!(model(s, d), real(s, d), "oneshot send={s} drop={d}");
    }
    // send after the receiver is gone
    let (tx, rx) = model_tokio::sync::oneshot::channel::<u32>();
    drop(rx);
    let (tx2, rx2) = real_tokio::sync::oneshot::channel::<u32>();
    drop(rx2);
    assert_eq!(format!("{:?}", tx.send(1)), format!("{:?}", tx2.send(1)));
}

// ---------------------------------------------------------------- mpsc (bounded)
#[test]
fn mpsc_agrees() {
    macro_rules! scenario { ($m:ident) => {{
        let mut out: Vec<String> = vec![];
        let (tx, mut rx) = $m::sync::mpsc::channel::<u32>(2);
        let tx2 = tx.clone();
        { let mut r = Box::pin(rx.recv()); out.push(format!("recv0 {:?}", poll_once(r.as_mut()))); }
        { let mut s = Box::pin(tx.send(1)); out.push(format!("send1 {:?}", poll_once(s.as_mut()).map(|r| r.is_ok()))); }
        { let mut s = Box::pin(tx2.send(2)); out.push(format!("send2 {:?}", poll_once(s.as_mut()).map(|r| r.is_ok()))); }
        { let mut s = Box::pin(tx.send(3)); out.push(format!("send3 {:?}", poll_once(s.as_mut()).map(|r| r.is_ok()))); }
        { let mut r = Box::pin(rx.recv()); out.push(format!("recv1 {:?}", poll_once(r.as_mut()))); }
        drop(tx);
        { let mut r = Box::pin(rx.recv()); out.push(format!("recv2 {:?}", poll_once(r.as_mut()))); }
        { let mut r = Box::pin(rx.recv()); out.push(format!("recv3 {:?}", poll_once(r.as_mut()))); }
        drop(tx2);
        { let mut r = Box::pin(rx.recv()); out.push(format!("recv4 {:?}", poll_once(r.as_mut()))); }
        out
    }}}
    assert_eq!(scenario!(model_tokio), scenario!(real_tokio));
}

// ---------------------------------------------------------------- broadcast (capacity 1)
#[test]
fn broadcast_agrees() {
    macro_rules! scenario { ($m:ident) => {{
        let mut out: Vec<String> = vec![];
        let (tx, rx0) = $m::sync::broadcast::channel::<u32>(1);
        drop(rx0);
        out.push(format!("send-no-rx {:?}", tx.send(9).is_ok()));
        let mut a = tx.subscribe();
        let mut b = tx.subscribe();
        out.push(format!("a-empty {:?}", a.try_recv()));
        out.push(format!("send {:?}", tx.send(5)));
        out.push(format!("a {:?}", a.try_recv()));
        out.push(format!("a-again {:?}", a.try_recv()));
        out.push(format!("send {:?}", tx.send(6)));
        out.push(format!("b-lagged {:?}", b.try_recv()));
        out.push(format!("b-next {:?}", b.try_recv()));
        let mut c = tx.subscribe();
        drop(tx);
        out.push(format!("c-closed {:?}", c.try_recv()));
        out.push(format!("a-last {:?}", a.try_recv()));
        out.push(format!("a-closed {:?}", a.try_recv()));
        out
    }}}
    assert_eq!(scenario!(model_tokio), scenario!(real_tokio));
}

// ---------------------------------------------------------------- interval (first tick immediate, then period apart)
#[test]
fn interval_agrees() {
    fn model(polls: &[u64]) -> Vec<String> {
        use model_tokio::{model, time};
        model::set_now(Duration::from_secs(1000));
        let t0 = model::now();
        let mut iv = time::interval(ms(100));
        iv.set_missed_tick_behavior(time::MissedTickBehavior::Skip);
        let mut out = vec![];
        for &p in polls {
            model::set_now(t0 + ms(p));
            let mut t = Box::pin(iv.tick());
            out.push(format!("{}", poll_once(t.as_mut()).is_ready()));
        }
        out
    }
    fn real(polls: &[u64]) -> Vec<String> {
        let rt = real_tokio::runtime::Builder::new_current_thread().enable_time().start_paused(true).build().unwrap();
        rt.block_on(async {
            use real_tokio::time;
            let mut iv = time::interval(ms(100));
            iv.set_missed_tick_behavior(time::MissedTickBehavior::Skip);
            let mut out = vec![];
            let mut now = 0;
            for &p in polls {
                time::advance(ms(p - now)).await;
                now = p;
                let mut t = Box::pin(iv.tick());
                out.push(format!("{}", poll_once(t.as_mut()).is_ready()));
            }
            out
        })
    }
    for polls in [&[0u64, 0, 50, 100, 100, 150, 200][..], &[0, 100, 200, 300][..], &[0, 99, 100, 199, 200][..]] {
        assert_eq!(model(polls), real(polls), "interval polls={polls:?}");
    }
}

// ---------------------------------------------------------------- select! (biased order, disabled branches)
#[test]
fn select_biased_agrees() {
    macro_rules! scenario { ($m:ident, $a_ready:expr, $b_ready:expr) => {{
        let a = async { if $a_ready { 1 } else { std::future::pending::<i32>().await } };
        let b = async { if $b_ready { 2 } else { std::future::pending::<i32>().await } };
        let mut f = Box::pin(async move {
            $m::select! {
                biased;
                x = a => x,
                y = b => y,
            }
        });
        format!("{:?}", poll_once(f.as_mut()))
    }}}
    for (a, b) in [(true, true), (true, false), (false, true), (false, false)] {
        assert_eq!(scenario!(model_tokio, a, b), scenario!(real_tokio, a, b), "select a={a} b={b}");
    }
}
