//! see tests/conformance.rs
