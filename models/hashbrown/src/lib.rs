//! Association-list model of `hashbrown::HashMap` (see Cargo.toml): at most
//! `CAP` entries, keys compared with `Eq` only (a hash function is never run).
#![allow(dead_code)]
use core::borrow::Borrow;

pub const CAP: usize = 4;

pub struct HashMap<K, V> {
    items: [Option<(K, V)>; CAP],
    len: usize,
}

impl<K, V> HashMap<K, V> {
    pub fn new() -> Self {
        HashMap { items: [None, None, None, None], len: 0 }
    }
    pub fn len(&self) -> usize {
        self.len
    }
    pub fn is_empty(&self) -> bool {
        self.len == 0
    }
    pub fn clear(&mut self) {
        let mut i = 0;
        while i < CAP {
            self.items[i] = None;
            i += 1;
        }
        self.len = 0;
    }
}
impl<K, V> Default for HashMap<K, V> {
    fn default() -> Self {
        Self::new()
    }
}

impl<K: Eq + core::hash::Hash, V> HashMap<K, V> {
    fn find<Q: ?Sized + Eq>(&self, k: &Q) -> Option<usize>
    where
        K: Borrow<Q>,
    {
        let mut i = 0;
        while i < CAP {
            if let Some((kk, _)) = &self.items[i] {
                if kk.borrow() == k {
                    return Some(i);
                }
            }
            i += 1;
        }
        None
    }
    pub fn get<Q: ?Sized + Eq + core::hash::Hash>(&self, k: &Q) -> Option<&V>
    where
        K: Borrow<Q>,
    {
        match self.find(k) {
            Some(i) => self.items[i].as_ref().map(|(_, v)| v),
            None => None,
        }
    }
    pub fn get_mut<Q: ?Sized + Eq + core::hash::Hash>(&mut self, k: &Q) -> Option<&mut V>
    where
        K: Borrow<Q>,
    {
        match self.find(k) {
            Some(i) => self.items[i].as_mut().map(|(_, v)| v),
            None => None,
        }
    }
    pub fn contains_key<Q: ?Sized + Eq + core::hash::Hash>(&self, k: &Q) -> bool
    where
        K: Borrow<Q>,
    {
        self.find(k).is_some()
    }
    /// Inserts, returning the previous value of the key if there was one.
    pub fn insert(&mut self, k: K, v: V) -> Option<V> {
        if let Some(i) = self.find(&k) {
            let old = self.items[i].take();
            self.items[i] = Some((k, v));
            return old.map(|(_, v)| v);
        }
        let mut i = 0;
        while i < CAP {
            if self.items[i].is_none() {
                self.items[i] = Some((k, v));
                self.len += 1;
                return None;
            }
            i += 1;
        }
        panic!("hashbrown model: more than CAP entries");
    }
    pub fn remove<Q: ?Sized + Eq + core::hash::Hash>(&mut self, k: &Q) -> Option<V>
    where
        K: Borrow<Q>,
    {
        match self.find(k) {
            Some(i) => {
                self.len -= 1;
                self.items[i].take().map(|(_, v)| v)
            }
            None => None,
        }
    }
}
