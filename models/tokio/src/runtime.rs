use core::future::Future;
/// Model of a runtime handle: spawning goes to the one model task table.
#[derive(Clone, Debug)]
pub struct Handle(());
#[derive(Debug)]
pub struct TryCurrentError(());
impl Handle {
    pub fn current() -> Handle {
        Handle(())
    }
    pub fn try_current() -> Result<Handle, TryCurrentError> {
        Ok(Handle(()))
    }
    pub fn spawn<F>(&self, future: F) -> crate::task::JoinHandle<F::Output>
    where
        F: Future + Send + 'static,
        F::Output: Send + 'static,
    {
        crate::model::st().handle_spawns += 1;
        crate::task::spawn(future)
    }
}
