use core::time::Duration;

#[derive(Clone, Copy, PartialEq, Eq)]
pub enum Avail {
    /// the resource is free whenever asked (nobody else holds / queues for it)
    Always,
    /// the resource is never granted (held by others forever)
    Never,
    /// the solver decides at every poll
    Any,
}

pub struct State {
    pub magic: [u64; 2],
    /// virtual time since the clock epoch
    pub now: Duration,
    // ---- semaphore ghost state (one semaphore family per harness)
    pub sem_created: u32,
    pub sem_capacity: usize,
    pub sem_avail: Avail,
    pub sem_closed: bool,
    /// permits granted to the caller under analysis and not yet dropped
    pub permits_held: u32,
    pub permits_granted_total: u32,
    pub permits_released_total: u32,
    /// acquire futures created / dropped without having been granted
    pub acquires_started: u32,
    pub acquires_cancelled: u32,
    /// value reported by available_permits()
    pub sem_reported_available: usize,
    pub sem_added: usize,
    // ---- async mutex ghost state
    pub mutex_avail: Avail,
    pub mutex_locked_by_me: u32,
    pub mutex_lock_count: u32,
    // ---- timers
    pub sleeps_created: u32,
    pub last_sleep_duration: Duration,
    pub total_slept_requested: Duration,
    pub timeouts_created: u32,
    pub last_timeout_duration: Duration,
    pub timers_fired: u32,
    // ---- spawn: the task table.  Tasks run only when the harness polls them
    // (`poll_task`), which makes every interleaving of task steps a harness choice.
    pub spawned: u32,
    pub handle_spawns: u32,
    pub tasks_finished: u32,
    pub tasks_dropped: u32,
    pub tasks: [TaskCell; MAX_TASKS],
    /// virtual time at which each task was spawned
    pub spawn_times: [Duration; MAX_TASKS],
}
pub const MAX_TASKS: usize = 6;
pub type TaskCell = Option<core::pin::Pin<Box<dyn core::future::Future<Output = ()>>>>;
const NO_TASK: TaskCell = None;

pub static mut ST: State = State {
    magic: [0x544f4b494f5f4d4f, 0x44454c5f53544154],
    now: Duration::new(1_000, 0),
    sem_created: 0,
    sem_capacity: 0,
    sem_avail: Avail::Any,
    sem_closed: false,
    permits_held: 0,
    permits_granted_total: 0,
    permits_released_total: 0,
    acquires_started: 0,
    acquires_cancelled: 0,
    sem_reported_available: 0,
    sem_added: 0,
    mutex_avail: Avail::Always,
    mutex_locked_by_me: 0,
    mutex_lock_count: 0,
    sleeps_created: 0,
    last_sleep_duration: Duration::ZERO,
    total_slept_requested: Duration::ZERO,
    timeouts_created: 0,
    last_timeout_duration: Duration::ZERO,
    timers_fired: 0,
    spawned: 0,
    handle_spawns: 0,
    tasks_finished: 0,
    tasks_dropped: 0,
    tasks: [NO_TASK; MAX_TASKS],
    spawn_times: [Duration::ZERO; MAX_TASKS],
};

pub fn st() -> &'static mut State {
    unsafe { &mut *core::ptr::addr_of_mut!(ST) }
}
pub fn now() -> Duration {
    st().now
}
pub fn set_now(t: Duration) {
    st().now = t;
}
pub fn advance(d: Duration) {
    let s = st();
    s.now = s.now + d;
}
/// `std::time::Instant::now` replacement reading the same virtual clock.
pub fn std_instant_now() -> std::time::Instant {
    unsafe { core::mem::zeroed::<std::time::Instant>() + st().now }
}
pub fn std_instant_at(t: Duration) -> std::time::Instant {
    unsafe { core::mem::zeroed::<std::time::Instant>() + t }
}

#[cfg(kani)]
pub fn choose() -> bool {
    kani::any()
}
#[cfg(not(kani))]
pub fn choose() -> bool {
    true
}
pub fn decide(a: Avail) -> bool {
    match a {
        Avail::Always => true,
        Avail::Never => false,
        Avail::Any => choose(),
    }
}

// ------------------------------------------------------------------ task table
pub(crate) fn push_task(t: core::pin::Pin<Box<dyn core::future::Future<Output = ()>>>) -> usize {
    let s = st();
    let id = s.spawned as usize;
    assert!(id < MAX_TASKS, "tokio model: more than MAX_TASKS tasks spawned");
    s.tasks[id] = Some(t);
    s.spawn_times[id] = s.now;
    s.spawned += 1;
    id
}
pub(crate) fn drop_task(id: usize) {
    let s = st();
    if id < MAX_TASKS {
        if let Some(t) = s.tasks[id].take() {
            s.tasks_dropped += 1;
            drop(t);
        }
    }
}
/// Number of tasks spawned so far.
pub fn task_count() -> usize {
    st().spawned as usize
}
/// Is task `id` still alive (spawned, not finished, not aborted)?
pub fn task_alive(id: usize) -> bool {
    id < MAX_TASKS && st().tasks[id].is_some()
}
/// Poll task `id` once (no-op for a finished task).  Returns true when the task
/// finished in this poll.  The future is taken out of the table while it runs so
/// that it may itself spawn.
pub fn poll_task(id: usize) -> bool {
    if id >= MAX_TASKS {
        return false;
    }
    let mut t = match st().tasks[id].take() {
        Some(t) => t,
        None => return false,
    };
    let mut cx = core::task::Context::from_waker(core::task::Waker::noop());
    match t.as_mut().poll(&mut cx) {
        core::task::Poll::Ready(()) => {
            st().tasks_finished += 1;
            drop(t);
            true
        }
        core::task::Poll::Pending => {
            st().tasks[id] = Some(t);
            false
        }
    }
}
/// Drop every task (end of the harness' "runtime").
pub fn shutdown() {
    let mut i = 0;
    while i < MAX_TASKS {
        drop_task(i);
        i += 1;
    }
}
