//! Contract model of the tokio entry points used by tower-resilience.
//!
//! * Time is a virtual clock (`model::now`, `model::advance`) owned by the
//!   harness.  `sleep`/`timeout` compute their deadline when created, exactly
//!   as tokio does, and complete at the first poll at or after the deadline.
//! * Futures never register wakers: the harness may poll any live future at
//!   any step.  That is a superset of the schedules a waker-driven executor
//!   produces (spurious polls are legal for every Future).
//! * Synchronisation primitives run in ENVIRONMENT mode: whether a permit / the
//!   lock is available at a given poll is decided by the harness-controlled
//!   `Avail` knob (Always / Never / Any = solver's choice), which stands for
//!   everything other callers may be doing.  Only the documented contract is
//!   modelled (a granted permit is held until dropped, release on drop, a
//!   cancelled waiter holds nothing).
//! * All model state lives in ONE static with a unique initialiser (Kani 0.68
//!   merges identical constant allocations of upstream crates).
#![allow(unexpected_cfgs, dead_code, clippy::all)]

#[macro_use]
mod select_macros;
pub mod macros;
pub mod model;
pub mod time;
pub mod sync;
pub mod io;
pub mod task;
pub mod runtime;
pub use task::spawn;

#[doc(hidden)]
pub use tokio_macros::select_priv_clean_pattern;
#[doc(hidden)]
pub use tokio_macros::select_priv_declare_output_enum;
