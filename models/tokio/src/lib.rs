//! Contract model of the tokio entry points used by tower-resilience.
//!
//! * Time is a virtual clock (`model::now`, `model::advance`) owned by the
//!   harness.  `sleep`/`timeout` compute their deadline when created, exactly
//!   as tokio does, and complete at the first poll at or after the deadline.
//! * Futures never register wakers: the harness may poll any live future at
//!   any step.  That is a superset of the schedules a waker-driven executor
//!   produces (spurious polls are legal for every Future).
//! * Synchronisation primitives run in ENVIRONMENT mode: whether a permit / the
//!   lock is available at a given poll is decided by the harness-controlled
//!   `Avail` knob (Always / Never / Any = solver's choice), which stands for
//!   everything other callers may be doing.  Only the documented contract is
//!   modelled (a granted permit is held until dropped, release on drop, a
//!   cancelled waiter holds nothing).
//! * All model state lives in ONE static with a unique initialiser (Kani 0.68
//!   merges identical constant allocations of upstream crates).
#![allow(unexpected_cfgs, dead_code, clippy::all)]

pub mod model {
    use core::time::Duration;

    #[derive(Clone, Copy, PartialEq, Eq)]
    pub enum Avail {
        /// the resource is free whenever asked (nobody else holds / queues for it)
        Always,
        /// the resource is never granted (held by others forever)
        Never,
        /// the solver decides at every poll
        Any,
    }

    pub struct State {
        pub magic: [u64; 2],
        /// virtual time since the clock epoch
        pub now: Duration,
        // ---- semaphore ghost state (one semaphore family per harness)
        pub sem_created: u32,
        pub sem_capacity: usize,
        pub sem_avail: Avail,
        pub sem_closed: bool,
        /// permits granted to the caller under analysis and not yet dropped
        pub permits_held: u32,
        pub permits_granted_total: u32,
        pub permits_released_total: u32,
        /// acquire futures created / dropped without having been granted
        pub acquires_started: u32,
        pub acquires_cancelled: u32,
        /// value reported by available_permits()
        pub sem_reported_available: usize,
        pub sem_added: usize,
        // ---- async mutex ghost state
        pub mutex_avail: Avail,
        pub mutex_locked_by_me: u32,
        pub mutex_lock_count: u32,
        // ---- timers
        pub sleeps_created: u32,
        pub last_sleep_duration: Duration,
        pub total_slept_requested: Duration,
        pub timeouts_created: u32,
        pub last_timeout_duration: Duration,
        pub timers_fired: u32,
        // ---- spawn
        pub spawned: u32,
    }

    pub static mut ST: State = State {
        magic: [0x544f4b494f5f4d4f, 0x44454c5f53544154],
        now: Duration::new(1_000, 0),
        sem_created: 0,
        sem_capacity: 0,
        sem_avail: Avail::Any,
        sem_closed: false,
        permits_held: 0,
        permits_granted_total: 0,
        permits_released_total: 0,
        acquires_started: 0,
        acquires_cancelled: 0,
        sem_reported_available: 0,
        sem_added: 0,
        mutex_avail: Avail::Always,
        mutex_locked_by_me: 0,
        mutex_lock_count: 0,
        sleeps_created: 0,
        last_sleep_duration: Duration::ZERO,
        total_slept_requested: Duration::ZERO,
        timeouts_created: 0,
        last_timeout_duration: Duration::ZERO,
        timers_fired: 0,
        spawned: 0,
    };

    pub fn st() -> &'static mut State {
        unsafe { &mut *core::ptr::addr_of_mut!(ST) }
    }
    pub fn now() -> Duration {
        st().now
    }
    pub fn set_now(t: Duration) {
        st().now = t;
    }
    pub fn advance(d: Duration) {
        let s = st();
        s.now = s.now + d;
    }
    /// `std::time::Instant::now` replacement reading the same virtual clock.
    pub fn std_instant_now() -> std::time::Instant {
        unsafe { core::mem::zeroed::<std::time::Instant>() + st().now }
    }
    pub fn std_instant_at(t: Duration) -> std::time::Instant {
        unsafe { core::mem::zeroed::<std::time::Instant>() + t }
    }

    #[cfg(kani)]
    pub fn choose() -> bool {
        kani::any()
    }
    #[cfg(not(kani))]
    pub fn choose() -> bool {
        true
    }
    pub fn decide(a: Avail) -> bool {
        match a {
            Avail::Always => true,
            Avail::Never => false,
            Avail::Any => choose(),
        }
    }
}

pub mod time {
    use super::model;
    use core::future::Future;
    use core::pin::Pin;
    use core::task::{Context, Poll};
    pub use core::time::Duration;

    pub mod error {
        /// Error returned by `timeout`.
        #[derive(Debug, PartialEq, Eq)]
        pub struct Elapsed(pub(crate) ());
        impl core::fmt::Display for Elapsed {
            fn fmt(&self, f: &mut core::fmt::Formatter<'_>) -> core::fmt::Result {
                f.write_str("deadline has elapsed")
            }
        }
        impl std::error::Error for Elapsed {}
    }

    /// Model of `tokio::time::Sleep`: completes at the first poll with
    /// `now >= deadline`, deadline fixed at creation.
    #[derive(Debug)]
    pub struct Sleep {
        deadline: Duration,
        fired: bool,
    }
    impl Sleep {
        pub fn deadline_since_epoch(&self) -> Duration {
            self.deadline
        }
        pub fn is_elapsed(&self) -> bool {
            model::now() >= self.deadline
        }
        pub fn reset_after(self: Pin<&mut Self>, d: Duration) {
            let me = unsafe { self.get_unchecked_mut() };
            me.deadline = model::now().saturating_add(d);
            me.fired = false;
        }
    }
    impl Future for Sleep {
        type Output = ();
        fn poll(self: Pin<&mut Self>, _cx: &mut Context<'_>) -> Poll<()> {
            let me = unsafe { self.get_unchecked_mut() };
            if model::now() >= me.deadline {
                if !me.fired {
                    me.fired = true;
                    model::st().timers_fired += 1;
                }
                Poll::Ready(())
            } else {
                Poll::Pending
            }
        }
    }
    pub fn sleep(duration: Duration) -> Sleep {
        let s = model::st();
        s.sleeps_created += 1;
        s.last_sleep_duration = duration;
        s.total_slept_requested = s.total_slept_requested.saturating_add(duration);
        Sleep { deadline: s.now.saturating_add(duration), fired: false }
    }

    /// Model of `tokio::time::Timeout`: polls the value first, then the deadline.
    pub struct Timeout<F> {
        value: F,
        deadline: Duration,
    }
    impl<F: Future> Future for Timeout<F> {
        type Output = Result<F::Output, error::Elapsed>;
        fn poll(self: Pin<&mut Self>, cx: &mut Context<'_>) -> Poll<Self::Output> {
            let me = unsafe { self.get_unchecked_mut() };
            let v = unsafe { Pin::new_unchecked(&mut me.value) };
            if let Poll::Ready(x) = v.poll(cx) {
                return Poll::Ready(Ok(x));
            }
            if model::now() >= me.deadline {
                model::st().timers_fired += 1;
                Poll::Ready(Err(error::Elapsed(())))
            } else {
                Poll::Pending
            }
        }
    }
    pub fn timeout<F: Future>(duration: Duration, future: F) -> Timeout<F> {
        let s = model::st();
        s.timeouts_created += 1;
        s.last_timeout_duration = duration;
        Timeout { value: future, deadline: s.now.saturating_add(duration) }
    }
}

pub mod sync {
    use super::model;
    use core::future::Future;
    use core::pin::Pin;
    use core::task::{Context, Poll};
    use std::sync::Arc;

    // ------------------------------------------------------------------ Semaphore
    #[derive(Debug)]
    pub struct AcquireError(());
    impl core::fmt::Display for AcquireError {
        fn fmt(&self, f: &mut core::fmt::Formatter<'_>) -> core::fmt::Result {
            f.write_str("semaphore closed")
        }
    }
    impl std::error::Error for AcquireError {}
    #[derive(Debug, PartialEq, Eq)]
    pub enum TryAcquireError {
        Closed,
        NoPermits,
    }

    /// Environment-mode semaphore (see crate docs).
    #[derive(Debug)]
    pub struct Semaphore {
        _capacity: usize,
    }
    #[derive(Debug)]
    pub struct OwnedSemaphorePermit {
        _sem: Arc<Semaphore>,
    }
    impl Drop for OwnedSemaphorePermit {
        fn drop(&mut self) {
            let s = model::st();
            s.permits_held -= 1;
            s.permits_released_total += 1;
        }
    }
    pub struct AcquireOwned {
        sem: Option<Arc<Semaphore>>,
        done: bool,
    }
    impl Future for AcquireOwned {
        type Output = Result<OwnedSemaphorePermit, AcquireError>;
        fn poll(self: Pin<&mut Self>, _cx: &mut Context<'_>) -> Poll<Self::Output> {
            let me = unsafe { self.get_unchecked_mut() };
            let s = model::st();
            if s.sem_closed {
                me.done = true;
                return Poll::Ready(Err(AcquireError(())));
            }
            if model::decide(s.sem_avail) {
                me.done = true;
                s.permits_held += 1;
                s.permits_granted_total += 1;
                Poll::Ready(Ok(OwnedSemaphorePermit { _sem: me.sem.take().unwrap() }))
            } else {
                Poll::Pending
            }
        }
    }
    impl Drop for AcquireOwned {
        fn drop(&mut self) {
            if !self.done {
                // cancelled while queued: holds nothing (tokio returns partially assigned permits)
                model::st().acquires_cancelled += 1;
            }
        }
    }
    impl Semaphore {
        pub const MAX_PERMITS: usize = usize::MAX >> 3;
        pub fn new(permits: usize) -> Self {
            let s = model::st();
            s.sem_created += 1;
            s.sem_capacity = permits;
            Semaphore { _capacity: permits }
        }
        pub fn available_permits(&self) -> usize {
            model::st().sem_reported_available
        }
        pub fn acquire_owned(self: Arc<Self>) -> AcquireOwned {
            model::st().acquires_started += 1;
            AcquireOwned { sem: Some(self), done: false }
        }
        pub fn try_acquire_owned(self: Arc<Self>) -> Result<OwnedSemaphorePermit, TryAcquireError> {
            let s = model::st();
            if s.sem_closed {
                return Err(TryAcquireError::Closed);
            }
            if model::decide(s.sem_avail) {
                s.permits_held += 1;
                s.permits_granted_total += 1;
                Ok(OwnedSemaphorePermit { _sem: self })
            } else {
                Err(TryAcquireError::NoPermits)
            }
        }
        pub fn add_permits(&self, n: usize) {
            let s = model::st();
            s.sem_added = s.sem_added.saturating_add(n);
        }
        pub fn close(&self) {
            model::st().sem_closed = true;
        }
        pub fn is_closed(&self) -> bool {
            model::st().sem_closed
        }
    }

    // ------------------------------------------------------------------ Mutex
    /// Environment-mode async mutex: `lock()` may stay pending while "another
    /// caller" holds it (knob `mutex_avail`); the data itself is only ever
    /// touched by the caller under analysis, interference on the protected
    /// data is injected by the harness between polls.
    pub struct Mutex<T: ?Sized> {
        data: core::cell::UnsafeCell<T>,
    }
    unsafe impl<T: ?Sized + Send> Send for Mutex<T> {}
    unsafe impl<T: ?Sized + Send> Sync for Mutex<T> {}
    pub struct MutexGuard<'a, T: ?Sized> {
        m: &'a Mutex<T>,
    }
    pub struct LockFuture<'a, T: ?Sized> {
        m: &'a Mutex<T>,
    }
    impl<T> Mutex<T> {
        pub fn new(t: T) -> Self {
            Mutex { data: core::cell::UnsafeCell::new(t) }
        }
        pub fn into_inner(self) -> T {
            self.data.into_inner()
        }
    }
    impl<T: ?Sized> Mutex<T> {
        pub fn lock(&self) -> LockFuture<'_, T> {
            LockFuture { m: self }
        }
        pub fn try_lock(&self) -> Result<MutexGuard<'_, T>, TryLockError> {
            let s = model::st();
            if s.mutex_locked_by_me == 0 && model::decide(s.mutex_avail) {
                s.mutex_locked_by_me += 1;
                s.mutex_lock_count += 1;
                Ok(MutexGuard { m: self })
            } else {
                Err(TryLockError(()))
            }
        }
        /// harness access to the protected data (no locking)
        pub fn model_peek(&self) -> &mut T {
            unsafe { &mut *self.data.get() }
        }
    }
    #[derive(Debug)]
    pub struct TryLockError(());
    impl<'a, T: ?Sized> Future for LockFuture<'a, T> {
        type Output = MutexGuard<'a, T>;
        fn poll(self: Pin<&mut Self>, _cx: &mut Context<'_>) -> Poll<Self::Output> {
            let s = model::st();
            if s.mutex_locked_by_me == 0 && model::decide(s.mutex_avail) {
                s.mutex_locked_by_me += 1;
                s.mutex_lock_count += 1;
                Poll::Ready(MutexGuard { m: self.m })
            } else {
                Poll::Pending
            }
        }
    }
    impl<T: ?Sized> core::ops::Deref for MutexGuard<'_, T> {
        type Target = T;
        fn deref(&self) -> &T {
            unsafe { &*self.m.data.get() }
        }
    }
    impl<T: ?Sized> core::ops::DerefMut for MutexGuard<'_, T> {
        fn deref_mut(&mut self) -> &mut T {
            unsafe { &mut *self.m.data.get() }
        }
    }
    impl<T: ?Sized> Drop for MutexGuard<'_, T> {
        fn drop(&mut self) {
            model::st().mutex_locked_by_me -= 1;
        }
    }
    impl<T: ?Sized + core::fmt::Debug> core::fmt::Debug for Mutex<T> {
        fn fmt(&self, f: &mut core::fmt::Formatter<'_>) -> core::fmt::Result {
            f.write_str("Mutex(model)")
        }
    }
    impl<T: Default> Default for Mutex<T> {
        fn default() -> Self {
            Mutex::new(T::default())
        }
    }
}


/// Only the trait names: `tower::make` (feature "make", enabled by the
/// reconnect crate) uses them as bounds; nothing implements or calls them here.
pub mod io {
    pub trait AsyncRead {}
    pub trait AsyncWrite {}
}
