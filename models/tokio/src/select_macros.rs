// The text of tokio's `select!` macro and its helper macros, copied verbatim from
// tokio 1.53.1 src/macros/select.rs (MIT licence, (c) Tokio contributors) so that the
// repository's `tokio::select!` call sites expand exactly as they do against real tokio.
// Only the surrounding `doc!{}` wrapper (documentation) was removed.
#[macro_export]
macro_rules! select {
    // Uses a declarative macro to do **most** of the work. While it is possible
    // to implement fully with a declarative macro, a procedural macro is used
    // to enable improved error messages.
    //
    // The macro is structured as a tt-muncher. All branches are processed and
    // normalized. Once the input is normalized, it is passed to the top-most
    // rule. When entering the macro, `@{ }` is inserted at the front. This is
    // used to collect the normalized input.
    //
    // The macro only recurses once per branch. This allows using `select!`
    // without requiring the user to increase the recursion limit.

    // All input is normalized, now transform.
    (@ {
        // The index of the future to poll first (in bias mode), or the RNG
        // expression to use to pick a future to poll first.
        start=$start:expr;

        // One `_` for each branch in the `select!` macro. Passing this to
        // `count!` converts $skip to an integer.
        ( $($count:tt)* )

        // Normalized select branches. `( $skip )` is a set of `_` characters.
        // There is one `_` for each select branch **before** this one. Given
        // that all input futures are stored in a tuple, $skip is useful for
        // generating a pattern to reference the future for the current branch.
        // $skip is also used as an argument to `count!`, returning the index of
        // the current select branch.
        $( ( $($skip:tt)* ) $bind:pat = $fut:expr, if $c:expr => $handle:expr, )+

        // Fallback expression used when all select branches have been disabled.
        ; $else:expr

    }) => {{
        // Enter a context where stable "function-like" proc macros can be used.
        //
        // This module is defined within a scope and should not leak out of this
        // macro.
        #[doc(hidden)]
        mod __tokio_select_util {
            // Generate an enum with one variant per select branch
            $crate::select_priv_declare_output_enum!( ( $($count)* ) );
        }

        // `tokio::macros::support` is a public, but doc(hidden) module
        // including a re-export of all types needed by this macro.
        use $crate::macros::support::Pin;

        const BRANCHES: u32 = $crate::count!( $($count)* );

        let mut disabled: __tokio_select_util::Mask = Default::default();

        // First, invoke all the pre-conditions. For any that return true,
        // set the appropriate bit in `disabled`.
        $(
            if !$c {
                let mask: __tokio_select_util::Mask = 1 << $crate::count!( $($skip)* );
                disabled |= mask;
            }
        )*

        // Create a scope to separate polling from handling the output. This
        // adds borrow checker flexibility when using the macro.
        let mut output = {
            // Store each future directly first (that is, without wrapping the future in a call to
            // `IntoFuture::into_future`). This allows the `$fut` expression to make use of
            // temporary lifetime extension.
            //
            // https://doc.rust-lang.org/1.58.1/reference/destructors.html#temporary-lifetime-extension
            let futures_init = ($( $fut, )+);

            // Safety: Nothing must be moved out of `futures`. This is to
            // satisfy the requirement of `Pin::new_unchecked` called below.
            //
            // We can't use the `pin!` macro for this because `futures` is a
            // tuple and the standard library provides no way to pin-project to
            // the fields of a tuple.
            let mut futures = ($( $crate::macros::support::IntoFuture::into_future(
                        $crate::count_field!( futures_init.$($skip)* )
            ),)+);

            // This assignment makes sure that the `poll_fn` closure only has a
            // reference to the futures, instead of taking ownership of them.
            // This mitigates the issue described in
            // <https://internals.rust-lang.org/t/surprising-soundness-trouble-around-pollfn/17484>
            let mut futures = &mut futures;

            $crate::macros::support::poll_fn(|cx| {
                // Return `Pending` when the task budget is depleted since budget-aware futures
                // are going to yield anyway and other futures will not cooperate.
                $crate::macros::support::ready!($crate::macros::support::poll_budget_available(cx));

                // Track if any branch returns pending. If no branch completes
                // **or** returns pending, this implies that all branches are
                // disabled.
                let mut is_pending = false;

                // Choose a starting index to begin polling the futures at. In
                // practice, this will either be a pseudo-randomly generated
                // number by default, or the constant 0 if `biased;` is
                // supplied.
                let start = $start;

                for i in 0..BRANCHES {
                    let branch;
                    #[allow(clippy::modulo_one)]
                    {
                        branch = (start + i) % BRANCHES;
                    }
                    match branch {
                        $(
                            #[allow(unreachable_code)]
                            $crate::count!( $($skip)* ) => {
                                // First, if the future has previously been
                                // disabled, do not poll it again. This is done
                                // by checking the associated bit in the
                                // `disabled` bit field.
                                let mask = 1 << branch;

                                if disabled & mask == mask {
                                    // The future has been disabled.
                                    continue;
                                }

                                // Extract the future for this branch from the
                                // tuple
                                let ( $($skip,)* fut, .. ) = &mut *futures;

                                // Safety: future is stored on the stack above
                                // and never moved.
                                let mut fut = unsafe { $crate::macros::support::Pin::new_unchecked(fut) };

                                // Try polling it
                                let out = match $crate::macros::support::Future::poll(fut, cx) {
                                    $crate::macros::support::Poll::Ready(out) => out,
                                    $crate::macros::support::Poll::Pending => {
                                        // Track that at least one future is
                                        // still pending and continue polling.
                                        is_pending = true;
                                        continue;
                                    }
                                };

                                // Disable the future from future polling.
                                disabled |= mask;

                                // The future returned a value, check if matches
                                // the specified pattern.
                                #[allow(unused_variables)]
                                #[allow(unused_mut)]
                                match &out {
                                    $crate::select_priv_clean_pattern!($bind) => {}
                                    _ => continue,
                                }

                                // The select is complete, return the value
                                return $crate::macros::support::Poll::Ready($crate::select_variant!(__tokio_select_util::Out, ($($skip)*))(out));
                            }
                        )*
                        _ => unreachable!("reaching this means there probably is an off by one bug"),
                    }
                }

                if is_pending {
                    $crate::macros::support::Poll::Pending
                } else {
                    // All branches have been disabled.
                    $crate::macros::support::Poll::Ready(__tokio_select_util::Out::Disabled)
                }
            }).await
        };

        match output {
            $(
                $crate::select_variant!(__tokio_select_util::Out, ($($skip)*) ($bind)) => $handle,
            )*
            __tokio_select_util::Out::Disabled => $else,
            _ => unreachable!("failed to match bind"),
        }
    }};

    // ==== Normalize =====

    // These rules match a single `select!` branch and normalize it for
    // processing by the first rule.

    (@ { start=$start:expr; $($t:tt)* } ) => {
        // No `else` branch
        $crate::select!(@{ start=$start; $($t)*; panic!("all branches are disabled and there is no else branch") })
    };
    (@ { start=$start:expr; $($t:tt)* } else => $else:expr $(,)?) => {
        $crate::select!(@{ start=$start; $($t)*; $else })
    };
    (@ { start=$start:expr; ( $($s:tt)* ) $($t:tt)* } $p:pat = $f:expr, if $c:expr => $h:block, $($r:tt)* ) => {
        $crate::select!(@{ start=$start; ($($s)* _) $($t)* ($($s)*) $p = $f, if $c => $h, } $($r)*)
    };
    (@ { start=$start:expr; ( $($s:tt)* ) $($t:tt)* } $p:pat = $f:expr => $h:block, $($r:tt)* ) => {
        $crate::select!(@{ start=$start; ($($s)* _) $($t)* ($($s)*) $p = $f, if true => $h, } $($r)*)
    };
    (@ { start=$start:expr; ( $($s:tt)* ) $($t:tt)* } $p:pat = $f:expr, if $c:expr => $h:block $($r:tt)* ) => {
        $crate::select!(@{ start=$start; ($($s)* _) $($t)* ($($s)*) $p = $f, if $c => $h, } $($r)*)
    };
    (@ { start=$start:expr; ( $($s:tt)* ) $($t:tt)* } $p:pat = $f:expr => $h:block $($r:tt)* ) => {
        $crate::select!(@{ start=$start; ($($s)* _) $($t)* ($($s)*) $p = $f, if true => $h, } $($r)*)
    };
    (@ { start=$start:expr; ( $($s:tt)* ) $($t:tt)* } $p:pat = $f:expr, if $c:expr => $h:expr ) => {
        $crate::select!(@{ start=$start; ($($s)* _) $($t)* ($($s)*) $p = $f, if $c => $h, })
    };
    (@ { start=$start:expr; ( $($s:tt)* ) $($t:tt)* } $p:pat = $f:expr => $h:expr ) => {
        $crate::select!(@{ start=$start; ($($s)* _) $($t)* ($($s)*) $p = $f, if true => $h, })
    };
    (@ { start=$start:expr; ( $($s:tt)* ) $($t:tt)* } $p:pat = $f:expr, if $c:expr => $h:expr, $($r:tt)* ) => {
        $crate::select!(@{ start=$start; ($($s)* _) $($t)* ($($s)*) $p = $f, if $c => $h, } $($r)*)
    };
    (@ { start=$start:expr; ( $($s:tt)* ) $($t:tt)* } $p:pat = $f:expr => $h:expr, $($r:tt)* ) => {
        $crate::select!(@{ start=$start; ($($s)* _) $($t)* ($($s)*) $p = $f, if true => $h, } $($r)*)
    };

    // ===== Entry point =====

    ($(biased;)? else => $else:expr $(,)? ) => {{
        $else
    }};

    (biased; $p:pat = $($t:tt)* ) => {
        $crate::select!(@{ start=0; () } $p = $($t)*)
    };

    ( $p:pat = $($t:tt)* ) => {
        // Randomly generate a starting point. This makes `select!` a bit more
        // fair and avoids always polling the first future.
        $crate::select!(@{ start={ $crate::macros::support::thread_rng_n(BRANCHES) }; () } $p = $($t)*)
    };

    () => {
        compile_error!("select! requires at least one branch.")
    };
}

// happy about it either, but this is how we manage to use a declarative macro!

#[macro_export]
#[doc(hidden)]
macro_rules! count {
    () => {
        0
    };
    (_) => {
        1
    };
    (_ _) => {
        2
    };
    (_ _ _) => {
        3
    };
    (_ _ _ _) => {
        4
    };
    (_ _ _ _ _) => {
        5
    };
    (_ _ _ _ _ _) => {
        6
    };
    (_ _ _ _ _ _ _) => {
        7
    };
    (_ _ _ _ _ _ _ _) => {
        8
    };
    (_ _ _ _ _ _ _ _ _) => {
        9
    };
    (_ _ _ _ _ _ _ _ _ _) => {
        10
    };
    (_ _ _ _ _ _ _ _ _ _ _) => {
        11
    };
    (_ _ _ _ _ _ _ _ _ _ _ _) => {
        12
    };
    (_ _ _ _ _ _ _ _ _ _ _ _ _) => {
        13
    };
    (_ _ _ _ _ _ _ _ _ _ _ _ _ _) => {
        14
    };
    (_ _ _ _ _ _ _ _ _ _ _ _ _ _ _) => {
        15
    };
    (_ _ _ _ _ _ _ _ _ _ _ _ _ _ _ _) => {
        16
    };
    (_ _ _ _ _ _ _ _ _ _ _ _ _ _ _ _ _) => {
        17
    };
    (_ _ _ _ _ _ _ _ _ _ _ _ _ _ _ _ _ _) => {
        18
    };
    (_ _ _ _ _ _ _ _ _ _ _ _ _ _ _ _ _ _ _) => {
        19
    };
    (_ _ _ _ _ _ _ _ _ _ _ _ _ _ _ _ _ _ _ _) => {
        20
    };
    (_ _ _ _ _ _ _ _ _ _ _ _ _ _ _ _ _ _ _ _ _) => {
        21
    };
    (_ _ _ _ _ _ _ _ _ _ _ _ _ _ _ _ _ _ _ _ _ _) => {
        22
    };
    (_ _ _ _ _ _ _ _ _ _ _ _ _ _ _ _ _ _ _ _ _ _ _) => {
        23
    };
    (_ _ _ _ _ _ _ _ _ _ _ _ _ _ _ _ _ _ _ _ _ _ _ _) => {
        24
    };
    (_ _ _ _ _ _ _ _ _ _ _ _ _ _ _ _ _ _ _ _ _ _ _ _ _) => {
        25
    };
    (_ _ _ _ _ _ _ _ _ _ _ _ _ _ _ _ _ _ _ _ _ _ _ _ _ _) => {
        26
    };
    (_ _ _ _ _ _ _ _ _ _ _ _ _ _ _ _ _ _ _ _ _ _ _ _ _ _ _) => {
        27
    };
    (_ _ _ _ _ _ _ _ _ _ _ _ _ _ _ _ _ _ _ _ _ _ _ _ _ _ _ _) => {
        28
    };
    (_ _ _ _ _ _ _ _ _ _ _ _ _ _ _ _ _ _ _ _ _ _ _ _ _ _ _ _ _) => {
        29
    };
    (_ _ _ _ _ _ _ _ _ _ _ _ _ _ _ _ _ _ _ _ _ _ _ _ _ _ _ _ _ _) => {
        30
    };
    (_ _ _ _ _ _ _ _ _ _ _ _ _ _ _ _ _ _ _ _ _ _ _ _ _ _ _ _ _ _ _) => {
        31
    };
    (_ _ _ _ _ _ _ _ _ _ _ _ _ _ _ _ _ _ _ _ _ _ _ _ _ _ _ _ _ _ _ _) => {
        32
    };
    (_ _ _ _ _ _ _ _ _ _ _ _ _ _ _ _ _ _ _ _ _ _ _ _ _ _ _ _ _ _ _ _ _) => {
        33
    };
    (_ _ _ _ _ _ _ _ _ _ _ _ _ _ _ _ _ _ _ _ _ _ _ _ _ _ _ _ _ _ _ _ _ _) => {
        34
    };
    (_ _ _ _ _ _ _ _ _ _ _ _ _ _ _ _ _ _ _ _ _ _ _ _ _ _ _ _ _ _ _ _ _ _ _) => {
        35
    };
    (_ _ _ _ _ _ _ _ _ _ _ _ _ _ _ _ _ _ _ _ _ _ _ _ _ _ _ _ _ _ _ _ _ _ _ _) => {
        36
    };
    (_ _ _ _ _ _ _ _ _ _ _ _ _ _ _ _ _ _ _ _ _ _ _ _ _ _ _ _ _ _ _ _ _ _ _ _ _) => {
        37
    };
    (_ _ _ _ _ _ _ _ _ _ _ _ _ _ _ _ _ _ _ _ _ _ _ _ _ _ _ _ _ _ _ _ _ _ _ _ _ _) => {
        38
    };
    (_ _ _ _ _ _ _ _ _ _ _ _ _ _ _ _ _ _ _ _ _ _ _ _ _ _ _ _ _ _ _ _ _ _ _ _ _ _ _) => {
        39
    };
    (_ _ _ _ _ _ _ _ _ _ _ _ _ _ _ _ _ _ _ _ _ _ _ _ _ _ _ _ _ _ _ _ _ _ _ _ _ _ _ _) => {
        40
    };
    (_ _ _ _ _ _ _ _ _ _ _ _ _ _ _ _ _ _ _ _ _ _ _ _ _ _ _ _ _ _ _ _ _ _ _ _ _ _ _ _ _) => {
        41
    };
    (_ _ _ _ _ _ _ _ _ _ _ _ _ _ _ _ _ _ _ _ _ _ _ _ _ _ _ _ _ _ _ _ _ _ _ _ _ _ _ _ _ _) => {
        42
    };
    (_ _ _ _ _ _ _ _ _ _ _ _ _ _ _ _ _ _ _ _ _ _ _ _ _ _ _ _ _ _ _ _ _ _ _ _ _ _ _ _ _ _ _) => {
        43
    };
    (_ _ _ _ _ _ _ _ _ _ _ _ _ _ _ _ _ _ _ _ _ _ _ _ _ _ _ _ _ _ _ _ _ _ _ _ _ _ _ _ _ _ _ _) => {
        44
    };
    (_ _ _ _ _ _ _ _ _ _ _ _ _ _ _ _ _ _ _ _ _ _ _ _ _ _ _ _ _ _ _ _ _ _ _ _ _ _ _ _ _ _ _ _ _) => {
        45
    };
    (_ _ _ _ _ _ _ _ _ _ _ _ _ _ _ _ _ _ _ _ _ _ _ _ _ _ _ _ _ _ _ _ _ _ _ _ _ _ _ _ _ _ _ _ _ _) => {
        46
    };
    (_ _ _ _ _ _ _ _ _ _ _ _ _ _ _ _ _ _ _ _ _ _ _ _ _ _ _ _ _ _ _ _ _ _ _ _ _ _ _ _ _ _ _ _ _ _ _) => {
        47
    };
    (_ _ _ _ _ _ _ _ _ _ _ _ _ _ _ _ _ _ _ _ _ _ _ _ _ _ _ _ _ _ _ _ _ _ _ _ _ _ _ _ _ _ _ _ _ _ _ _) => {
        48
    };
    (_ _ _ _ _ _ _ _ _ _ _ _ _ _ _ _ _ _ _ _ _ _ _ _ _ _ _ _ _ _ _ _ _ _ _ _ _ _ _ _ _ _ _ _ _ _ _ _ _) => {
        49
    };
    (_ _ _ _ _ _ _ _ _ _ _ _ _ _ _ _ _ _ _ _ _ _ _ _ _ _ _ _ _ _ _ _ _ _ _ _ _ _ _ _ _ _ _ _ _ _ _ _ _ _) => {
        50
    };
    (_ _ _ _ _ _ _ _ _ _ _ _ _ _ _ _ _ _ _ _ _ _ _ _ _ _ _ _ _ _ _ _ _ _ _ _ _ _ _ _ _ _ _ _ _ _ _ _ _ _ _) => {
        51
    };
    (_ _ _ _ _ _ _ _ _ _ _ _ _ _ _ _ _ _ _ _ _ _ _ _ _ _ _ _ _ _ _ _ _ _ _ _ _ _ _ _ _ _ _ _ _ _ _ _ _ _ _ _) => {
        52
    };
    (_ _ _ _ _ _ _ _ _ _ _ _ _ _ _ _ _ _ _ _ _ _ _ _ _ _ _ _ _ _ _ _ _ _ _ _ _ _ _ _ _ _ _ _ _ _ _ _ _ _ _ _ _) => {
        53
    };
    (_ _ _ _ _ _ _ _ _ _ _ _ _ _ _ _ _ _ _ _ _ _ _ _ _ _ _ _ _ _ _ _ _ _ _ _ _ _ _ _ _ _ _ _ _ _ _ _ _ _ _ _ _ _) => {
        54
    };
    (_ _ _ _ _ _ _ _ _ _ _ _ _ _ _ _ _ _ _ _ _ _ _ _ _ _ _ _ _ _ _ _ _ _ _ _ _ _ _ _ _ _ _ _ _ _ _ _ _ _ _ _ _ _ _) => {
        55
    };
    (_ _ _ _ _ _ _ _ _ _ _ _ _ _ _ _ _ _ _ _ _ _ _ _ _ _ _ _ _ _ _ _ _ _ _ _ _ _ _ _ _ _ _ _ _ _ _ _ _ _ _ _ _ _ _ _) => {
        56
    };
    (_ _ _ _ _ _ _ _ _ _ _ _ _ _ _ _ _ _ _ _ _ _ _ _ _ _ _ _ _ _ _ _ _ _ _ _ _ _ _ _ _ _ _ _ _ _ _ _ _ _ _ _ _ _ _ _ _) => {
        57
    };
    (_ _ _ _ _ _ _ _ _ _ _ _ _ _ _ _ _ _ _ _ _ _ _ _ _ _ _ _ _ _ _ _ _ _ _ _ _ _ _ _ _ _ _ _ _ _ _ _ _ _ _ _ _ _ _ _ _ _) => {
        58
    };
    (_ _ _ _ _ _ _ _ _ _ _ _ _ _ _ _ _ _ _ _ _ _ _ _ _ _ _ _ _ _ _ _ _ _ _ _ _ _ _ _ _ _ _ _ _ _ _ _ _ _ _ _ _ _ _ _ _ _ _) => {
        59
    };
    (_ _ _ _ _ _ _ _ _ _ _ _ _ _ _ _ _ _ _ _ _ _ _ _ _ _ _ _ _ _ _ _ _ _ _ _ _ _ _ _ _ _ _ _ _ _ _ _ _ _ _ _ _ _ _ _ _ _ _ _) => {
        60
    };
    (_ _ _ _ _ _ _ _ _ _ _ _ _ _ _ _ _ _ _ _ _ _ _ _ _ _ _ _ _ _ _ _ _ _ _ _ _ _ _ _ _ _ _ _ _ _ _ _ _ _ _ _ _ _ _ _ _ _ _ _ _) => {
        61
    };
    (_ _ _ _ _ _ _ _ _ _ _ _ _ _ _ _ _ _ _ _ _ _ _ _ _ _ _ _ _ _ _ _ _ _ _ _ _ _ _ _ _ _ _ _ _ _ _ _ _ _ _ _ _ _ _ _ _ _ _ _ _ _) => {
        62
    };
    (_ _ _ _ _ _ _ _ _ _ _ _ _ _ _ _ _ _ _ _ _ _ _ _ _ _ _ _ _ _ _ _ _ _ _ _ _ _ _ _ _ _ _ _ _ _ _ _ _ _ _ _ _ _ _ _ _ _ _ _ _ _ _) => {
        63
    };
    (_ _ _ _ _ _ _ _ _ _ _ _ _ _ _ _ _ _ _ _ _ _ _ _ _ _ _ _ _ _ _ _ _ _ _ _ _ _ _ _ _ _ _ _ _ _ _ _ _ _ _ _ _ _ _ _ _ _ _ _ _ _ _ _) => {
        64
    };
}

#[macro_export]
#[doc(hidden)]
macro_rules! count_field {
    ($var:ident. ) => {
        $var.0
    };
    ($var:ident. _) => {
        $var.1
    };
    ($var:ident. _ _) => {
        $var.2
    };
    ($var:ident. _ _ _) => {
        $var.3
    };
    ($var:ident. _ _ _ _) => {
        $var.4
    };
    ($var:ident. _ _ _ _ _) => {
        $var.5
    };
    ($var:ident. _ _ _ _ _ _) => {
        $var.6
    };
    ($var:ident. _ _ _ _ _ _ _) => {
        $var.7
    };
    ($var:ident. _ _ _ _ _ _ _ _) => {
        $var.8
    };
    ($var:ident. _ _ _ _ _ _ _ _ _) => {
        $var.9
    };
    ($var:ident. _ _ _ _ _ _ _ _ _ _) => {
        $var.10
    };
    ($var:ident. _ _ _ _ _ _ _ _ _ _ _) => {
        $var.11
    };
    ($var:ident. _ _ _ _ _ _ _ _ _ _ _ _) => {
        $var.12
    };
    ($var:ident. _ _ _ _ _ _ _ _ _ _ _ _ _) => {
        $var.13
    };
    ($var:ident. _ _ _ _ _ _ _ _ _ _ _ _ _ _) => {
        $var.14
    };
    ($var:ident. _ _ _ _ _ _ _ _ _ _ _ _ _ _ _) => {
        $var.15
    };
    ($var:ident. _ _ _ _ _ _ _ _ _ _ _ _ _ _ _ _) => {
        $var.16
    };
    ($var:ident. _ _ _ _ _ _ _ _ _ _ _ _ _ _ _ _ _) => {
        $var.17
    };
    ($var:ident. _ _ _ _ _ _ _ _ _ _ _ _ _ _ _ _ _ _) => {
        $var.18
    };
    ($var:ident. _ _ _ _ _ _ _ _ _ _ _ _ _ _ _ _ _ _ _) => {
        $var.19
    };
    ($var:ident. _ _ _ _ _ _ _ _ _ _ _ _ _ _ _ _ _ _ _ _) => {
        $var.20
    };
    ($var:ident. _ _ _ _ _ _ _ _ _ _ _ _ _ _ _ _ _ _ _ _ _) => {
        $var.21
    };
    ($var:ident. _ _ _ _ _ _ _ _ _ _ _ _ _ _ _ _ _ _ _ _ _ _) => {
        $var.22
    };
    ($var:ident. _ _ _ _ _ _ _ _ _ _ _ _ _ _ _ _ _ _ _ _ _ _ _) => {
        $var.23
    };
    ($var:ident. _ _ _ _ _ _ _ _ _ _ _ _ _ _ _ _ _ _ _ _ _ _ _ _) => {
        $var.24
    };
    ($var:ident. _ _ _ _ _ _ _ _ _ _ _ _ _ _ _ _ _ _ _ _ _ _ _ _ _) => {
        $var.25
    };
    ($var:ident. _ _ _ _ _ _ _ _ _ _ _ _ _ _ _ _ _ _ _ _ _ _ _ _ _ _) => {
        $var.26
    };
    ($var:ident. _ _ _ _ _ _ _ _ _ _ _ _ _ _ _ _ _ _ _ _ _ _ _ _ _ _ _) => {
        $var.27
    };
    ($var:ident. _ _ _ _ _ _ _ _ _ _ _ _ _ _ _ _ _ _ _ _ _ _ _ _ _ _ _ _) => {
        $var.28
    };
    ($var:ident. _ _ _ _ _ _ _ _ _ _ _ _ _ _ _ _ _ _ _ _ _ _ _ _ _ _ _ _ _) => {
        $var.29
    };
    ($var:ident. _ _ _ _ _ _ _ _ _ _ _ _ _ _ _ _ _ _ _ _ _ _ _ _ _ _ _ _ _ _) => {
        $var.30
    };
    ($var:ident. _ _ _ _ _ _ _ _ _ _ _ _ _ _ _ _ _ _ _ _ _ _ _ _ _ _ _ _ _ _ _) => {
        $var.31
    };
    ($var:ident. _ _ _ _ _ _ _ _ _ _ _ _ _ _ _ _ _ _ _ _ _ _ _ _ _ _ _ _ _ _ _ _) => {
        $var.32
    };
    ($var:ident. _ _ _ _ _ _ _ _ _ _ _ _ _ _ _ _ _ _ _ _ _ _ _ _ _ _ _ _ _ _ _ _ _) => {
        $var.33
    };
    ($var:ident. _ _ _ _ _ _ _ _ _ _ _ _ _ _ _ _ _ _ _ _ _ _ _ _ _ _ _ _ _ _ _ _ _ _) => {
        $var.34
    };
    ($var:ident. _ _ _ _ _ _ _ _ _ _ _ _ _ _ _ _ _ _ _ _ _ _ _ _ _ _ _ _ _ _ _ _ _ _ _) => {
        $var.35
    };
    ($var:ident. _ _ _ _ _ _ _ _ _ _ _ _ _ _ _ _ _ _ _ _ _ _ _ _ _ _ _ _ _ _ _ _ _ _ _ _) => {
        $var.36
    };
    ($var:ident. _ _ _ _ _ _ _ _ _ _ _ _ _ _ _ _ _ _ _ _ _ _ _ _ _ _ _ _ _ _ _ _ _ _ _ _ _) => {
        $var.37
    };
    ($var:ident. _ _ _ _ _ _ _ _ _ _ _ _ _ _ _ _ _ _ _ _ _ _ _ _ _ _ _ _ _ _ _ _ _ _ _ _ _ _) => {
        $var.38
    };
    ($var:ident. _ _ _ _ _ _ _ _ _ _ _ _ _ _ _ _ _ _ _ _ _ _ _ _ _ _ _ _ _ _ _ _ _ _ _ _ _ _ _) => {
        $var.39
    };
    ($var:ident. _ _ _ _ _ _ _ _ _ _ _ _ _ _ _ _ _ _ _ _ _ _ _ _ _ _ _ _ _ _ _ _ _ _ _ _ _ _ _ _) => {
        $var.40
    };
    ($var:ident. _ _ _ _ _ _ _ _ _ _ _ _ _ _ _ _ _ _ _ _ _ _ _ _ _ _ _ _ _ _ _ _ _ _ _ _ _ _ _ _ _) => {
        $var.41
    };
    ($var:ident. _ _ _ _ _ _ _ _ _ _ _ _ _ _ _ _ _ _ _ _ _ _ _ _ _ _ _ _ _ _ _ _ _ _ _ _ _ _ _ _ _ _) => {
        $var.42
    };
    ($var:ident. _ _ _ _ _ _ _ _ _ _ _ _ _ _ _ _ _ _ _ _ _ _ _ _ _ _ _ _ _ _ _ _ _ _ _ _ _ _ _ _ _ _ _) => {
        $var.43
    };
    ($var:ident. _ _ _ _ _ _ _ _ _ _ _ _ _ _ _ _ _ _ _ _ _ _ _ _ _ _ _ _ _ _ _ _ _ _ _ _ _ _ _ _ _ _ _ _) => {
        $var.44
    };
    ($var:ident. _ _ _ _ _ _ _ _ _ _ _ _ _ _ _ _ _ _ _ _ _ _ _ _ _ _ _ _ _ _ _ _ _ _ _ _ _ _ _ _ _ _ _ _ _) => {
        $var.45
    };
    ($var:ident. _ _ _ _ _ _ _ _ _ _ _ _ _ _ _ _ _ _ _ _ _ _ _ _ _ _ _ _ _ _ _ _ _ _ _ _ _ _ _ _ _ _ _ _ _ _) => {
        $var.46
    };
    ($var:ident. _ _ _ _ _ _ _ _ _ _ _ _ _ _ _ _ _ _ _ _ _ _ _ _ _ _ _ _ _ _ _ _ _ _ _ _ _ _ _ _ _ _ _ _ _ _ _) => {
        $var.47
    };
    ($var:ident. _ _ _ _ _ _ _ _ _ _ _ _ _ _ _ _ _ _ _ _ _ _ _ _ _ _ _ _ _ _ _ _ _ _ _ _ _ _ _ _ _ _ _ _ _ _ _ _) => {
        $var.48
    };
    ($var:ident. _ _ _ _ _ _ _ _ _ _ _ _ _ _ _ _ _ _ _ _ _ _ _ _ _ _ _ _ _ _ _ _ _ _ _ _ _ _ _ _ _ _ _ _ _ _ _ _ _) => {
        $var.49
    };
    ($var:ident. _ _ _ _ _ _ _ _ _ _ _ _ _ _ _ _ _ _ _ _ _ _ _ _ _ _ _ _ _ _ _ _ _ _ _ _ _ _ _ _ _ _ _ _ _ _ _ _ _ _) => {
        $var.50
    };
    ($var:ident. _ _ _ _ _ _ _ _ _ _ _ _ _ _ _ _ _ _ _ _ _ _ _ _ _ _ _ _ _ _ _ _ _ _ _ _ _ _ _ _ _ _ _ _ _ _ _ _ _ _ _) => {
        $var.51
    };
    ($var:ident. _ _ _ _ _ _ _ _ _ _ _ _ _ _ _ _ _ _ _ _ _ _ _ _ _ _ _ _ _ _ _ _ _ _ _ _ _ _ _ _ _ _ _ _ _ _ _ _ _ _ _ _) => {
        $var.52
    };
    ($var:ident. _ _ _ _ _ _ _ _ _ _ _ _ _ _ _ _ _ _ _ _ _ _ _ _ _ _ _ _ _ _ _ _ _ _ _ _ _ _ _ _ _ _ _ _ _ _ _ _ _ _ _ _ _) => {
        $var.53
    };
    ($var:ident. _ _ _ _ _ _ _ _ _ _ _ _ _ _ _ _ _ _ _ _ _ _ _ _ _ _ _ _ _ _ _ _ _ _ _ _ _ _ _ _ _ _ _ _ _ _ _ _ _ _ _ _ _ _) => {
        $var.54
    };
    ($var:ident. _ _ _ _ _ _ _ _ _ _ _ _ _ _ _ _ _ _ _ _ _ _ _ _ _ _ _ _ _ _ _ _ _ _ _ _ _ _ _ _ _ _ _ _ _ _ _ _ _ _ _ _ _ _ _) => {
        $var.55
    };
    ($var:ident. _ _ _ _ _ _ _ _ _ _ _ _ _ _ _ _ _ _ _ _ _ _ _ _ _ _ _ _ _ _ _ _ _ _ _ _ _ _ _ _ _ _ _ _ _ _ _ _ _ _ _ _ _ _ _ _) => {
        $var.56
    };
    ($var:ident. _ _ _ _ _ _ _ _ _ _ _ _ _ _ _ _ _ _ _ _ _ _ _ _ _ _ _ _ _ _ _ _ _ _ _ _ _ _ _ _ _ _ _ _ _ _ _ _ _ _ _ _ _ _ _ _ _) => {
        $var.57
    };
    ($var:ident. _ _ _ _ _ _ _ _ _ _ _ _ _ _ _ _ _ _ _ _ _ _ _ _ _ _ _ _ _ _ _ _ _ _ _ _ _ _ _ _ _ _ _ _ _ _ _ _ _ _ _ _ _ _ _ _ _ _) => {
        $var.58
    };
    ($var:ident. _ _ _ _ _ _ _ _ _ _ _ _ _ _ _ _ _ _ _ _ _ _ _ _ _ _ _ _ _ _ _ _ _ _ _ _ _ _ _ _ _ _ _ _ _ _ _ _ _ _ _ _ _ _ _ _ _ _ _) => {
        $var.59
    };
    ($var:ident. _ _ _ _ _ _ _ _ _ _ _ _ _ _ _ _ _ _ _ _ _ _ _ _ _ _ _ _ _ _ _ _ _ _ _ _ _ _ _ _ _ _ _ _ _ _ _ _ _ _ _ _ _ _ _ _ _ _ _ _) => {
        $var.60
    };
    ($var:ident. _ _ _ _ _ _ _ _ _ _ _ _ _ _ _ _ _ _ _ _ _ _ _ _ _ _ _ _ _ _ _ _ _ _ _ _ _ _ _ _ _ _ _ _ _ _ _ _ _ _ _ _ _ _ _ _ _ _ _ _ _) => {
        $var.61
    };
    ($var:ident. _ _ _ _ _ _ _ _ _ _ _ _ _ _ _ _ _ _ _ _ _ _ _ _ _ _ _ _ _ _ _ _ _ _ _ _ _ _ _ _ _ _ _ _ _ _ _ _ _ _ _ _ _ _ _ _ _ _ _ _ _ _) => {
        $var.62
    };
    ($var:ident. _ _ _ _ _ _ _ _ _ _ _ _ _ _ _ _ _ _ _ _ _ _ _ _ _ _ _ _ _ _ _ _ _ _ _ _ _ _ _ _ _ _ _ _ _ _ _ _ _ _ _ _ _ _ _ _ _ _ _ _ _ _ _) => {
        $var.63
    };
    ($var:ident. _ _ _ _ _ _ _ _ _ _ _ _ _ _ _ _ _ _ _ _ _ _ _ _ _ _ _ _ _ _ _ _ _ _ _ _ _ _ _ _ _ _ _ _ _ _ _ _ _ _ _ _ _ _ _ _ _ _ _ _ _ _ _ _) => {
        $var.64
    };
}

#[macro_export]
#[doc(hidden)]
macro_rules! select_variant {
    ($($p:ident)::*, () $($t:tt)*) => {
        $($p)::*::_0 $($t)*
    };
    ($($p:ident)::*, (_) $($t:tt)*) => {
        $($p)::*::_1 $($t)*
    };
    ($($p:ident)::*, (_ _) $($t:tt)*) => {
        $($p)::*::_2 $($t)*
    };
    ($($p:ident)::*, (_ _ _) $($t:tt)*) => {
        $($p)::*::_3 $($t)*
    };
    ($($p:ident)::*, (_ _ _ _) $($t:tt)*) => {
        $($p)::*::_4 $($t)*
    };
    ($($p:ident)::*, (_ _ _ _ _) $($t:tt)*) => {
        $($p)::*::_5 $($t)*
    };
    ($($p:ident)::*, (_ _ _ _ _ _) $($t:tt)*) => {
        $($p)::*::_6 $($t)*
    };
    ($($p:ident)::*, (_ _ _ _ _ _ _) $($t:tt)*) => {
        $($p)::*::_7 $($t)*
    };
    ($($p:ident)::*, (_ _ _ _ _ _ _ _) $($t:tt)*) => {
        $($p)::*::_8 $($t)*
    };
    ($($p:ident)::*, (_ _ _ _ _ _ _ _ _) $($t:tt)*) => {
        $($p)::*::_9 $($t)*
    };
    ($($p:ident)::*, (_ _ _ _ _ _ _ _ _ _) $($t:tt)*) => {
        $($p)::*::_10 $($t)*
    };
    ($($p:ident)::*, (_ _ _ _ _ _ _ _ _ _ _) $($t:tt)*) => {
        $($p)::*::_11 $($t)*
    };
    ($($p:ident)::*, (_ _ _ _ _ _ _ _ _ _ _ _) $($t:tt)*) => {
        $($p)::*::_12 $($t)*
    };
    ($($p:ident)::*, (_ _ _ _ _ _ _ _ _ _ _ _ _) $($t:tt)*) => {
        $($p)::*::_13 $($t)*
    };
    ($($p:ident)::*, (_ _ _ _ _ _ _ _ _ _ _ _ _ _) $($t:tt)*) => {
        $($p)::*::_14 $($t)*
    };
    ($($p:ident)::*, (_ _ _ _ _ _ _ _ _ _ _ _ _ _ _) $($t:tt)*) => {
        $($p)::*::_15 $($t)*
    };
    ($($p:ident)::*, (_ _ _ _ _ _ _ _ _ _ _ _ _ _ _ _) $($t:tt)*) => {
        $($p)::*::_16 $($t)*
    };
    ($($p:ident)::*, (_ _ _ _ _ _ _ _ _ _ _ _ _ _ _ _ _) $($t:tt)*) => {
        $($p)::*::_17 $($t)*
    };
    ($($p:ident)::*, (_ _ _ _ _ _ _ _ _ _ _ _ _ _ _ _ _ _) $($t:tt)*) => {
        $($p)::*::_18 $($t)*
    };
    ($($p:ident)::*, (_ _ _ _ _ _ _ _ _ _ _ _ _ _ _ _ _ _ _) $($t:tt)*) => {
        $($p)::*::_19 $($t)*
    };
    ($($p:ident)::*, (_ _ _ _ _ _ _ _ _ _ _ _ _ _ _ _ _ _ _ _) $($t:tt)*) => {
        $($p)::*::_20 $($t)*
    };
    ($($p:ident)::*, (_ _ _ _ _ _ _ _ _ _ _ _ _ _ _ _ _ _ _ _ _) $($t:tt)*) => {
        $($p)::*::_21 $($t)*
    };
    ($($p:ident)::*, (_ _ _ _ _ _ _ _ _ _ _ _ _ _ _ _ _ _ _ _ _ _) $($t:tt)*) => {
        $($p)::*::_22 $($t)*
    };
    ($($p:ident)::*, (_ _ _ _ _ _ _ _ _ _ _ _ _ _ _ _ _ _ _ _ _ _ _) $($t:tt)*) => {
        $($p)::*::_23 $($t)*
    };
    ($($p:ident)::*, (_ _ _ _ _ _ _ _ _ _ _ _ _ _ _ _ _ _ _ _ _ _ _ _) $($t:tt)*) => {
        $($p)::*::_24 $($t)*
    };
    ($($p:ident)::*, (_ _ _ _ _ _ _ _ _ _ _ _ _ _ _ _ _ _ _ _ _ _ _ _ _) $($t:tt)*) => {
        $($p)::*::_25 $($t)*
    };
    ($($p:ident)::*, (_ _ _ _ _ _ _ _ _ _ _ _ _ _ _ _ _ _ _ _ _ _ _ _ _ _) $($t:tt)*) => {
        $($p)::*::_26 $($t)*
    };
    ($($p:ident)::*, (_ _ _ _ _ _ _ _ _ _ _ _ _ _ _ _ _ _ _ _ _ _ _ _ _ _ _) $($t:tt)*) => {
        $($p)::*::_27 $($t)*
    };
    ($($p:ident)::*, (_ _ _ _ _ _ _ _ _ _ _ _ _ _ _ _ _ _ _ _ _ _ _ _ _ _ _ _) $($t:tt)*) => {
        $($p)::*::_28 $($t)*
    };
    ($($p:ident)::*, (_ _ _ _ _ _ _ _ _ _ _ _ _ _ _ _ _ _ _ _ _ _ _ _ _ _ _ _ _) $($t:tt)*) => {
        $($p)::*::_29 $($t)*
    };
    ($($p:ident)::*, (_ _ _ _ _ _ _ _ _ _ _ _ _ _ _ _ _ _ _ _ _ _ _ _ _ _ _ _ _ _) $($t:tt)*) => {
        $($p)::*::_30 $($t)*
    };
    ($($p:ident)::*, (_ _ _ _ _ _ _ _ _ _ _ _ _ _ _ _ _ _ _ _ _ _ _ _ _ _ _ _ _ _ _) $($t:tt)*) => {
        $($p)::*::_31 $($t)*
    };
    ($($p:ident)::*, (_ _ _ _ _ _ _ _ _ _ _ _ _ _ _ _ _ _ _ _ _ _ _ _ _ _ _ _ _ _ _ _) $($t:tt)*) => {
        $($p)::*::_32 $($t)*
    };
    ($($p:ident)::*, (_ _ _ _ _ _ _ _ _ _ _ _ _ _ _ _ _ _ _ _ _ _ _ _ _ _ _ _ _ _ _ _ _) $($t:tt)*) => {
        $($p)::*::_33 $($t)*
    };
    ($($p:ident)::*, (_ _ _ _ _ _ _ _ _ _ _ _ _ _ _ _ _ _ _ _ _ _ _ _ _ _ _ _ _ _ _ _ _ _) $($t:tt)*) => {
        $($p)::*::_34 $($t)*
    };
    ($($p:ident)::*, (_ _ _ _ _ _ _ _ _ _ _ _ _ _ _ _ _ _ _ _ _ _ _ _ _ _ _ _ _ _ _ _ _ _ _) $($t:tt)*) => {
        $($p)::*::_35 $($t)*
    };
    ($($p:ident)::*, (_ _ _ _ _ _ _ _ _ _ _ _ _ _ _ _ _ _ _ _ _ _ _ _ _ _ _ _ _ _ _ _ _ _ _ _) $($t:tt)*) => {
        $($p)::*::_36 $($t)*
    };
    ($($p:ident)::*, (_ _ _ _ _ _ _ _ _ _ _ _ _ _ _ _ _ _ _ _ _ _ _ _ _ _ _ _ _ _ _ _ _ _ _ _ _) $($t:tt)*) => {
        $($p)::*::_37 $($t)*
    };
    ($($p:ident)::*, (_ _ _ _ _ _ _ _ _ _ _ _ _ _ _ _ _ _ _ _ _ _ _ _ _ _ _ _ _ _ _ _ _ _ _ _ _ _) $($t:tt)*) => {
        $($p)::*::_38 $($t)*
    };
    ($($p:ident)::*, (_ _ _ _ _ _ _ _ _ _ _ _ _ _ _ _ _ _ _ _ _ _ _ _ _ _ _ _ _ _ _ _ _ _ _ _ _ _ _) $($t:tt)*) => {
        $($p)::*::_39 $($t)*
    };
    ($($p:ident)::*, (_ _ _ _ _ _ _ _ _ _ _ _ _ _ _ _ _ _ _ _ _ _ _ _ _ _ _ _ _ _ _ _ _ _ _ _ _ _ _ _) $($t:tt)*) => {
        $($p)::*::_40 $($t)*
    };
    ($($p:ident)::*, (_ _ _ _ _ _ _ _ _ _ _ _ _ _ _ _ _ _ _ _ _ _ _ _ _ _ _ _ _ _ _ _ _ _ _ _ _ _ _ _ _) $($t:tt)*) => {
        $($p)::*::_41 $($t)*
    };
    ($($p:ident)::*, (_ _ _ _ _ _ _ _ _ _ _ _ _ _ _ _ _ _ _ _ _ _ _ _ _ _ _ _ _ _ _ _ _ _ _ _ _ _ _ _ _ _) $($t:tt)*) => {
        $($p)::*::_42 $($t)*
    };
    ($($p:ident)::*, (_ _ _ _ _ _ _ _ _ _ _ _ _ _ _ _ _ _ _ _ _ _ _ _ _ _ _ _ _ _ _ _ _ _ _ _ _ _ _ _ _ _ _) $($t:tt)*) => {
        $($p)::*::_43 $($t)*
    };
    ($($p:ident)::*, (_ _ _ _ _ _ _ _ _ _ _ _ _ _ _ _ _ _ _ _ _ _ _ _ _ _ _ _ _ _ _ _ _ _ _ _ _ _ _ _ _ _ _ _) $($t:tt)*) => {
        $($p)::*::_44 $($t)*
    };
    ($($p:ident)::*, (_ _ _ _ _ _ _ _ _ _ _ _ _ _ _ _ _ _ _ _ _ _ _ _ _ _ _ _ _ _ _ _ _ _ _ _ _ _ _ _ _ _ _ _ _) $($t:tt)*) => {
        $($p)::*::_45 $($t)*
    };
    ($($p:ident)::*, (_ _ _ _ _ _ _ _ _ _ _ _ _ _ _ _ _ _ _ _ _ _ _ _ _ _ _ _ _ _ _ _ _ _ _ _ _ _ _ _ _ _ _ _ _ _) $($t:tt)*) => {
        $($p)::*::_46 $($t)*
    };
    ($($p:ident)::*, (_ _ _ _ _ _ _ _ _ _ _ _ _ _ _ _ _ _ _ _ _ _ _ _ _ _ _ _ _ _ _ _ _ _ _ _ _ _ _ _ _ _ _ _ _ _ _) $($t:tt)*) => {
        $($p)::*::_47 $($t)*
    };
    ($($p:ident)::*, (_ _ _ _ _ _ _ _ _ _ _ _ _ _ _ _ _ _ _ _ _ _ _ _ _ _ _ _ _ _ _ _ _ _ _ _ _ _ _ _ _ _ _ _ _ _ _ _) $($t:tt)*) => {
        $($p)::*::_48 $($t)*
    };
    ($($p:ident)::*, (_ _ _ _ _ _ _ _ _ _ _ _ _ _ _ _ _ _ _ _ _ _ _ _ _ _ _ _ _ _ _ _ _ _ _ _ _ _ _ _ _ _ _ _ _ _ _ _ _) $($t:tt)*) => {
        $($p)::*::_49 $($t)*
    };
    ($($p:ident)::*, (_ _ _ _ _ _ _ _ _ _ _ _ _ _ _ _ _ _ _ _ _ _ _ _ _ _ _ _ _ _ _ _ _ _ _ _ _ _ _ _ _ _ _ _ _ _ _ _ _ _) $($t:tt)*) => {
        $($p)::*::_50 $($t)*
    };
    ($($p:ident)::*, (_ _ _ _ _ _ _ _ _ _ _ _ _ _ _ _ _ _ _ _ _ _ _ _ _ _ _ _ _ _ _ _ _ _ _ _ _ _ _ _ _ _ _ _ _ _ _ _ _ _ _) $($t:tt)*) => {
        $($p)::*::_51 $($t)*
    };
    ($($p:ident)::*, (_ _ _ _ _ _ _ _ _ _ _ _ _ _ _ _ _ _ _ _ _ _ _ _ _ _ _ _ _ _ _ _ _ _ _ _ _ _ _ _ _ _ _ _ _ _ _ _ _ _ _ _) $($t:tt)*) => {
        $($p)::*::_52 $($t)*
    };
    ($($p:ident)::*, (_ _ _ _ _ _ _ _ _ _ _ _ _ _ _ _ _ _ _ _ _ _ _ _ _ _ _ _ _ _ _ _ _ _ _ _ _ _ _ _ _ _ _ _ _ _ _ _ _ _ _ _ _) $($t:tt)*) => {
        $($p)::*::_53 $($t)*
    };
    ($($p:ident)::*, (_ _ _ _ _ _ _ _ _ _ _ _ _ _ _ _ _ _ _ _ _ _ _ _ _ _ _ _ _ _ _ _ _ _ _ _ _ _ _ _ _ _ _ _ _ _ _ _ _ _ _ _ _ _) $($t:tt)*) => {
        $($p)::*::_54 $($t)*
    };
    ($($p:ident)::*, (_ _ _ _ _ _ _ _ _ _ _ _ _ _ _ _ _ _ _ _ _ _ _ _ _ _ _ _ _ _ _ _ _ _ _ _ _ _ _ _ _ _ _ _ _ _ _ _ _ _ _ _ _ _ _) $($t:tt)*) => {
        $($p)::*::_55 $($t)*
    };
    ($($p:ident)::*, (_ _ _ _ _ _ _ _ _ _ _ _ _ _ _ _ _ _ _ _ _ _ _ _ _ _ _ _ _ _ _ _ _ _ _ _ _ _ _ _ _ _ _ _ _ _ _ _ _ _ _ _ _ _ _ _) $($t:tt)*) => {
        $($p)::*::_56 $($t)*
    };
    ($($p:ident)::*, (_ _ _ _ _ _ _ _ _ _ _ _ _ _ _ _ _ _ _ _ _ _ _ _ _ _ _ _ _ _ _ _ _ _ _ _ _ _ _ _ _ _ _ _ _ _ _ _ _ _ _ _ _ _ _ _ _) $($t:tt)*) => {
        $($p)::*::_57 $($t)*
    };
    ($($p:ident)::*, (_ _ _ _ _ _ _ _ _ _ _ _ _ _ _ _ _ _ _ _ _ _ _ _ _ _ _ _ _ _ _ _ _ _ _ _ _ _ _ _ _ _ _ _ _ _ _ _ _ _ _ _ _ _ _ _ _ _) $($t:tt)*) => {
        $($p)::*::_58 $($t)*
    };
    ($($p:ident)::*, (_ _ _ _ _ _ _ _ _ _ _ _ _ _ _ _ _ _ _ _ _ _ _ _ _ _ _ _ _ _ _ _ _ _ _ _ _ _ _ _ _ _ _ _ _ _ _ _ _ _ _ _ _ _ _ _ _ _ _) $($t:tt)*) => {
        $($p)::*::_59 $($t)*
    };
    ($($p:ident)::*, (_ _ _ _ _ _ _ _ _ _ _ _ _ _ _ _ _ _ _ _ _ _ _ _ _ _ _ _ _ _ _ _ _ _ _ _ _ _ _ _ _ _ _ _ _ _ _ _ _ _ _ _ _ _ _ _ _ _ _ _) $($t:tt)*) => {
        $($p)::*::_60 $($t)*
    };
    ($($p:ident)::*, (_ _ _ _ _ _ _ _ _ _ _ _ _ _ _ _ _ _ _ _ _ _ _ _ _ _ _ _ _ _ _ _ _ _ _ _ _ _ _ _ _ _ _ _ _ _ _ _ _ _ _ _ _ _ _ _ _ _ _ _ _) $($t:tt)*) => {
        $($p)::*::_61 $($t)*
    };
    ($($p:ident)::*, (_ _ _ _ _ _ _ _ _ _ _ _ _ _ _ _ _ _ _ _ _ _ _ _ _ _ _ _ _ _ _ _ _ _ _ _ _ _ _ _ _ _ _ _ _ _ _ _ _ _ _ _ _ _ _ _ _ _ _ _ _ _) $($t:tt)*) => {
        $($p)::*::_62 $($t)*
    };
    ($($p:ident)::*, (_ _ _ _ _ _ _ _ _ _ _ _ _ _ _ _ _ _ _ _ _ _ _ _ _ _ _ _ _ _ _ _ _ _ _ _ _ _ _ _ _ _ _ _ _ _ _ _ _ _ _ _ _ _ _ _ _ _ _ _ _ _ _) $($t:tt)*) => {
        $($p)::*::_63 $($t)*
    };
}
