//! Support items the copied `select!` macro text refers to
//! (`$crate::macros::support::*`).
pub mod support {
    pub use std::future::poll_fn;
    pub use std::future::{Future, IntoFuture};
    pub use std::pin::Pin;
    pub use std::result::Result;
    pub use std::task::{ready, Context, Poll};

    /// Start index of the branch rotation in an unbiased `select!`: the solver's choice.
    #[cfg(kani)]
    pub fn thread_rng_n(n: u32) -> u32 {
        let v: u32 = kani::any();
        kani::assume(v < n);
        v
    }
    #[cfg(not(kani))]
    pub fn thread_rng_n(_n: u32) -> u32 {
        0
    }
    /// No cooperative-scheduling budget in the model.
    #[inline]
    pub fn poll_budget_available(_: &mut Context<'_>) -> Poll<()> {
        Poll::Ready(())
    }
}
