pub trait AsyncRead {}
pub trait AsyncWrite {}
