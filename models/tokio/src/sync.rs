use crate::model;
use core::future::Future;
use core::pin::Pin;
use core::task::{Context, Poll};
use std::sync::Arc;

// ------------------------------------------------------------------ Semaphore
#[derive(Debug)]
pub struct AcquireError(());
impl core::fmt::Display for AcquireError {
    fn fmt(&self, f: &mut core::fmt::Formatter<'_>) -> core::fmt::Result {
        f.write_str("semaphore closed")
    }
}
impl std::error::Error for AcquireError {}
#[derive(Debug, PartialEq, Eq)]
pub enum TryAcquireError {
    Closed,
    NoPermits,
}

/// Environment-mode semaphore (see crate docs).
#[derive(Debug)]
pub struct Semaphore {
    _capacity: usize,
}
#[derive(Debug)]
pub struct OwnedSemaphorePermit {
    _sem: Arc<Semaphore>,
}
impl Drop for OwnedSemaphorePermit {
    fn drop(&mut self) {
        let s = model::st();
        s.permits_held -= 1;
        s.permits_released_total += 1;
    }
}
pub struct AcquireOwned {
    sem: Option<Arc<Semaphore>>,
    done: bool,
}
impl Future for AcquireOwned {
    type Output = Result<OwnedSemaphorePermit, AcquireError>;
    fn poll(self: Pin<&mut Self>, _cx: &mut Context<'_>) -> Poll<Self::Output> {
        let me = unsafe { self.get_unchecked_mut() };
        let s = model::st();
        if s.sem_closed {
            me.done = true;
            return Poll::Ready(Err(AcquireError(())));
        }
        if model::decide(s.sem_avail) {
            me.done = true;
            s.permits_held += 1;
            s.permits_granted_total += 1;
            Poll::Ready(Ok(OwnedSemaphorePermit { _sem: me.sem.take().unwrap() }))
        } else {
            Poll::Pending
        }
    }
}
impl Drop for AcquireOwned {
    fn drop(&mut self) {
        if !self.done {
            // cancelled while queued: holds nothing (tokio returns partially assigned permits)
            model::st().acquires_cancelled += 1;
        }
    }
}
impl Semaphore {
    pub const MAX_PERMITS: usize = usize::MAX >> 3;
    pub fn new(permits: usize) -> Self {
        let s = model::st();
        s.sem_created += 1;
        s.sem_capacity = permits;
        Semaphore { _capacity: permits }
    }
    pub fn available_permits(&self) -> usize {
        model::st().sem_reported_available
    }
    pub fn acquire_owned(self: Arc<Self>) -> AcquireOwned {
        model::st().acquires_started += 1;
        AcquireOwned { sem: Some(self), done: false }
    }
    pub fn try_acquire_owned(self: Arc<Self>) -> Result<OwnedSemaphorePermit, TryAcquireError> {
        let s = model::st();
        if s.sem_closed {
            return Err(TryAcquireError::Closed);
        }
        if model::decide(s.sem_avail) {
            s.permits_held += 1;
            s.permits_granted_total += 1;
            Ok(OwnedSemaphorePermit { _sem: self })
        } else {
            Err(TryAcquireError::NoPermits)
        }
    }
    pub fn add_permits(&self, n: usize) {
        let s = model::st();
        s.sem_added = s.sem_added.saturating_add(n);
    }
    pub fn close(&self) {
        model::st().sem_closed = true;
    }
    pub fn is_closed(&self) -> bool {
        model::st().sem_closed
    }
}

// ------------------------------------------------------------------ Mutex
/// Environment-mode async mutex: `lock()` may stay pending while "another
/// caller" holds it (knob `mutex_avail`); the data itself is only ever
/// touched by the caller under analysis, interference on the protected
/// data is injected by the harness between polls.
pub struct Mutex<T: ?Sized> {
    data: core::cell::UnsafeCell<T>,
}
unsafe impl<T: ?Sized + Send> Send for Mutex<T> {}
unsafe impl<T: ?Sized + Send> Sync for Mutex<T> {}
pub struct MutexGuard<'a, T: ?Sized> {
    m: &'a Mutex<T>,
}
pub struct LockFuture<'a, T: ?Sized> {
    m: &'a Mutex<T>,
}
impl<T> Mutex<T> {
    pub fn new(t: T) -> Self {
        Mutex { data: core::cell::UnsafeCell::new(t) }
    }
    pub fn into_inner(self) -> T {
        self.data.into_inner()
    }
}
impl<T: ?Sized> Mutex<T> {
    pub fn lock(&self) -> LockFuture<'_, T> {
        LockFuture { m: self }
    }
    pub fn try_lock(&self) -> Result<MutexGuard<'_, T>, TryLockError> {
        let s = model::st();
        if s.mutex_locked_by_me == 0 && model::decide(s.mutex_avail) {
            s.mutex_locked_by_me += 1;
            s.mutex_lock_count += 1;
            Ok(MutexGuard { m: self })
        } else {
            Err(TryLockError(()))
        }
    }
    /// harness access to the protected data (no locking)
    pub fn model_peek(&self) -> &mut T {
        unsafe { &mut *self.data.get() }
    }
}
#[derive(Debug)]
pub struct TryLockError(());
impl<'a, T: ?Sized> Future for LockFuture<'a, T> {
    type Output = MutexGuard<'a, T>;
    fn poll(self: Pin<&mut Self>, _cx: &mut Context<'_>) -> Poll<Self::Output> {
        let s = model::st();
        if s.mutex_locked_by_me == 0 && model::decide(s.mutex_avail) {
            s.mutex_locked_by_me += 1;
            s.mutex_lock_count += 1;
            Poll::Ready(MutexGuard { m: self.m })
        } else {
            Poll::Pending
        }
    }
}
impl<T: ?Sized> core::ops::Deref for MutexGuard<'_, T> {
    type Target = T;
    fn deref(&self) -> &T {
        unsafe { &*self.m.data.get() }
    }
}
impl<T: ?Sized> core::ops::DerefMut for MutexGuard<'_, T> {
    fn deref_mut(&mut self) -> &mut T {
        unsafe { &mut *self.m.data.get() }
    }
}
impl<T: ?Sized> Drop for MutexGuard<'_, T> {
    fn drop(&mut self) {
        model::st().mutex_locked_by_me -= 1;
    }
}
impl<T: ?Sized + core::fmt::Debug> core::fmt::Debug for Mutex<T> {
    fn fmt(&self, f: &mut core::fmt::Formatter<'_>) -> core::fmt::Result {
        f.write_str("Mutex(model)")
    }
}
impl<T: Default> Default for Mutex<T> {
    fn default() -> Self {
        Mutex::new(T::default())
    }
}

// ------------------------------------------------------------------ RwLock
/// Async RwLock, uncontended (the harness is the only actor between polls).
pub struct RwLock<T: ?Sized> {
    data: core::cell::UnsafeCell<T>,
}
unsafe impl<T: ?Sized + Send> Send for RwLock<T> {}
unsafe impl<T: ?Sized + Send + Sync> Sync for RwLock<T> {}
pub struct RwLockReadGuard<'a, T: ?Sized> {
    l: &'a RwLock<T>,
}
pub struct RwLockWriteGuard<'a, T: ?Sized> {
    l: &'a RwLock<T>,
}
impl<T> RwLock<T> {
    pub fn new(t: T) -> Self {
        RwLock { data: core::cell::UnsafeCell::new(t) }
    }
}
impl<T: ?Sized> RwLock<T> {
    pub fn read(&self) -> core::future::Ready<RwLockReadGuard<'_, T>> {
        core::future::ready(RwLockReadGuard { l: self })
    }
    pub fn write(&self) -> core::future::Ready<RwLockWriteGuard<'_, T>> {
        core::future::ready(RwLockWriteGuard { l: self })
    }
    pub fn try_write(&self) -> Result<RwLockWriteGuard<'_, T>, TryLockError> {
        Ok(RwLockWriteGuard { l: self })
    }
    pub fn try_read(&self) -> Result<RwLockReadGuard<'_, T>, TryLockError> {
        Ok(RwLockReadGuard { l: self })
    }
}
impl<T: ?Sized> core::ops::Deref for RwLockReadGuard<'_, T> {
    type Target = T;
    fn deref(&self) -> &T {
        unsafe { &*self.l.data.get() }
    }
}
impl<T: ?Sized> core::ops::Deref for RwLockWriteGuard<'_, T> {
    type Target = T;
    fn deref(&self) -> &T {
        unsafe { &*self.l.data.get() }
    }
}
impl<T: ?Sized> core::ops::DerefMut for RwLockWriteGuard<'_, T> {
    fn deref_mut(&mut self) -> &mut T {
        unsafe { &mut *self.l.data.get() }
    }
}

// ------------------------------------------------------------------ oneshot
pub mod oneshot {
    use core::future::Future;
    use core::pin::Pin;
    use core::task::{Context, Poll};
    use std::sync::Arc;

    struct Inner<T> {
        value: core::cell::UnsafeCell<Option<T>>,
        tx_gone: core::cell::Cell<bool>,
        rx_gone: core::cell::Cell<bool>,
    }
    pub struct Sender<T> {
        inner: Arc<Inner<T>>,
        sent: bool,
    }
    pub struct Receiver<T> {
        inner: Arc<Inner<T>>,
    }
    unsafe impl<T: Send> Send for Sender<T> {}
    unsafe impl<T: Send> Sync for Sender<T> {}
    unsafe impl<T: Send> Send for Receiver<T> {}
    unsafe impl<T: Send> Sync for Receiver<T> {}
    impl<T> Unpin for Receiver<T> {}
    pub mod error {
        #[derive(Debug, PartialEq, Eq, Clone)]
        pub struct RecvError(pub(super) ());
        impl core::fmt::Display for RecvError {
            fn fmt(&self, f: &mut core::fmt::Formatter<'_>) -> core::fmt::Result {
                f.write_str("channel closed")
            }
        }
        impl std::error::Error for RecvError {}
        #[derive(Debug, PartialEq, Eq, Clone)]
        pub enum TryRecvError {
            Empty,
            Closed,
        }
    }
    pub fn channel<T>() -> (Sender<T>, Receiver<T>) {
        let inner = Arc::new(Inner { value: core::cell::UnsafeCell::new(None), tx_gone: core::cell::Cell::new(false), rx_gone: core::cell::Cell::new(false) });
        (Sender { inner: inner.clone(), sent: false }, Receiver { inner })
    }
    impl<T> Sender<T> {
        pub fn send(mut self, t: T) -> Result<(), T> {
            if self.inner.rx_gone.get() {
                return Err(t);
            }
            unsafe { *self.inner.value.get() = Some(t) };
            self.sent = true;
            Ok(())
        }
        pub fn is_closed(&self) -> bool {
            self.inner.rx_gone.get()
        }
    }
    impl<T> Drop for Sender<T> {
        fn drop(&mut self) {
            self.inner.tx_gone.set(true);
        }
    }
    impl<T> Drop for Receiver<T> {
        fn drop(&mut self) {
            self.inner.rx_gone.set(true);
        }
    }
    impl<T> Receiver<T> {
        pub fn try_recv(&mut self) -> Result<T, error::TryRecvError> {
            match unsafe { (*self.inner.value.get()).take() } {
                Some(v) => Ok(v),
                None if self.inner.tx_gone.get() => Err(error::TryRecvError::Closed),
                None => Err(error::TryRecvError::Empty),
            }
        }
    }
    impl<T> Future for Receiver<T> {
        type Output = Result<T, error::RecvError>;
        fn poll(self: Pin<&mut Self>, _cx: &mut Context<'_>) -> Poll<Self::Output> {
            match unsafe { (*self.inner.value.get()).take() } {
                Some(v) => Poll::Ready(Ok(v)),
                None if self.inner.tx_gone.get() => Poll::Ready(Err(error::RecvError(()))),
                None => Poll::Pending,
            }
        }
    }
}

// ------------------------------------------------------------------ mpsc (bounded)
pub mod mpsc {
    use core::future::Future;
    use core::pin::Pin;
    use core::task::{Context, Poll};
    use std::sync::Arc;

    pub const MODEL_CAP: usize = 4;
    struct Inner<T> {
        q: core::cell::UnsafeCell<[Option<T>; MODEL_CAP]>,
        head: core::cell::Cell<usize>,
        len: core::cell::Cell<usize>,
        cap: usize,
        senders: core::cell::Cell<usize>,
        rx_gone: core::cell::Cell<bool>,
    }
    pub struct Sender<T> {
        inner: Arc<Inner<T>>,
    }
    pub struct Receiver<T> {
        inner: Arc<Inner<T>>,
    }
    unsafe impl<T: Send> Send for Sender<T> {}
    unsafe impl<T: Send> Sync for Sender<T> {}
    unsafe impl<T: Send> Send for Receiver<T> {}
    unsafe impl<T: Send> Sync for Receiver<T> {}
    pub mod error {
        #[derive(Debug, PartialEq, Eq)]
        pub struct SendError<T>(pub T);
        #[derive(Debug, PartialEq, Eq)]
        pub enum TryRecvError {
            Empty,
            Disconnected,
        }
    }
    pub fn channel<T>(buffer: usize) -> (Sender<T>, Receiver<T>) {
        assert!(buffer > 0, "mpsc bounded channel requires buffer > 0");
        assert!(buffer <= MODEL_CAP, "tokio model: mpsc capacity above MODEL_CAP");
        let inner = Arc::new(Inner {
            q: core::cell::UnsafeCell::new([None, None, None, None]),
            head: core::cell::Cell::new(0),
            len: core::cell::Cell::new(0),
            cap: buffer,
            senders: core::cell::Cell::new(1),
            rx_gone: core::cell::Cell::new(false),
        });
        (Sender { inner: inner.clone() }, Receiver { inner })
    }
    impl<T> Clone for Sender<T> {
        fn clone(&self) -> Self {
            self.inner.senders.set(self.inner.senders.get() + 1);
            Sender { inner: self.inner.clone() }
        }
    }
    impl<T> Drop for Sender<T> {
        fn drop(&mut self) {
            self.inner.senders.set(self.inner.senders.get() - 1);
        }
    }
    impl<T> Drop for Receiver<T> {
        fn drop(&mut self) {
            self.inner.rx_gone.set(true);
        }
    }
    pub struct SendFut<'a, T> {
        tx: &'a Sender<T>,
        v: Option<T>,
    }
    impl<T> Unpin for SendFut<'_, T> {}
    impl<T> Future for SendFut<'_, T> {
        type Output = Result<(), error::SendError<T>>;
        fn poll(mut self: Pin<&mut Self>, _cx: &mut Context<'_>) -> Poll<Self::Output> {
            let i = &self.tx.inner;
            if i.rx_gone.get() {
                return Poll::Ready(Err(error::SendError(self.v.take().unwrap())));
            }
            if i.len.get() < i.cap {
                let slot = (i.head.get() + i.len.get()) % MODEL_CAP;
                let v = self.v.take();
                unsafe { (*i.q.get())[slot] = v };
                i.len.set(i.len.get() + 1);
                Poll::Ready(Ok(()))
            } else {
                Poll::Pending
            }
        }
    }
    impl<T> Sender<T> {
        pub fn send(&self, value: T) -> SendFut<'_, T> {
            SendFut { tx: self, v: Some(value) }
        }
        pub fn is_closed(&self) -> bool {
            self.inner.rx_gone.get()
        }
    }
    pub struct RecvFut<'a, T> {
        rx: &'a mut Receiver<T>,
    }
    impl<T> Future for RecvFut<'_, T> {
        type Output = Option<T>;
        fn poll(self: Pin<&mut Self>, _cx: &mut Context<'_>) -> Poll<Option<T>> {
            let i = &self.rx.inner;
            if i.len.get() > 0 {
                let h = i.head.get();
                let v = unsafe { (*i.q.get())[h].take() };
                i.head.set((h + 1) % MODEL_CAP);
                i.len.set(i.len.get() - 1);
                Poll::Ready(v)
            } else if i.senders.get() == 0 {
                Poll::Ready(None)
            } else {
                Poll::Pending
            }
        }
    }
    impl<T> Receiver<T> {
        pub fn recv(&mut self) -> RecvFut<'_, T> {
            RecvFut { rx: self }
        }
        pub fn try_recv(&mut self) -> Result<T, error::TryRecvError> {
            let i = &self.inner;
            if i.len.get() > 0 {
                let h = i.head.get();
                let v = unsafe { (*i.q.get())[h].take() };
                i.head.set((h + 1) % MODEL_CAP);
                i.len.set(i.len.get() - 1);
                Ok(v.unwrap())
            } else if i.senders.get() == 0 {
                Err(error::TryRecvError::Disconnected)
            } else {
                Err(error::TryRecvError::Empty)
            }
        }
        pub fn close(&mut self) {
            self.inner.rx_gone.set(true);
        }
    }
}

// ------------------------------------------------------------------ broadcast (capacity 1 is all the repository uses)
pub mod broadcast {
    use core::future::Future;
    use core::pin::Pin;
    use core::task::{Context, Poll};
    use std::sync::Arc;

    struct Inner<T> {
        /// the values sent so far (at most 2 retained)
        log: core::cell::UnsafeCell<[Option<T>; 2]>,
        sent: core::cell::Cell<u64>,
        senders: core::cell::Cell<usize>,
        receivers: core::cell::Cell<usize>,
    }
    pub struct Sender<T> {
        inner: Arc<Inner<T>>,
    }
    pub struct Receiver<T> {
        inner: Arc<Inner<T>>,
        next: u64,
    }
    unsafe impl<T: Send> Send for Sender<T> {}
    unsafe impl<T: Send> Sync for Sender<T> {}
    unsafe impl<T: Send> Send for Receiver<T> {}
    unsafe impl<T: Send> Sync for Receiver<T> {}
    pub mod error {
        #[derive(Debug, PartialEq, Eq, Clone)]
        pub struct SendError<T>(pub T);
        #[derive(Debug, PartialEq, Eq, Clone)]
        pub enum RecvError {
            Closed,
            Lagged(u64),
        }
        #[derive(Debug, PartialEq, Eq, Clone)]
        pub enum TryRecvError {
            Empty,
            Closed,
            Lagged(u64),
        }
    }
    pub fn channel<T: Clone>(capacity: usize) -> (Sender<T>, Receiver<T>) {
        assert!(capacity > 0, "broadcast channel capacity cannot be zero");
        let inner = Arc::new(Inner { log: core::cell::UnsafeCell::new([None, None]), sent: core::cell::Cell::new(0), senders: core::cell::Cell::new(1), receivers: core::cell::Cell::new(1) });
        (Sender { inner: inner.clone() }, Receiver { inner, next: 0 })
    }
    impl<T> Clone for Sender<T> {
        fn clone(&self) -> Self {
            self.inner.senders.set(self.inner.senders.get() + 1);
            Sender { inner: self.inner.clone() }
        }
    }
    impl<T> Drop for Sender<T> {
        fn drop(&mut self) {
            self.inner.senders.set(self.inner.senders.get() - 1);
        }
    }
    impl<T> Drop for Receiver<T> {
        fn drop(&mut self) {
            self.inner.receivers.set(self.inner.receivers.get() - 1);
        }
    }
    impl<T> Sender<T> {
        /// Sends to all current receivers; `Err` when there is none.
        pub fn send(&self, value: T) -> Result<usize, error::SendError<T>> {
            let n = self.inner.receivers.get();
            if n == 0 {
                return Err(error::SendError(value));
            }
            let k = self.inner.sent.get();
            unsafe { (*self.inner.log.get())[(k % 2) as usize] = Some(value) };
            self.inner.sent.set(k + 1);
            Ok(n)
        }
        pub fn subscribe(&self) -> Receiver<T> {
            self.inner.receivers.set(self.inner.receivers.get() + 1);
            Receiver { inner: self.inner.clone(), next: self.inner.sent.get() }
        }
        pub fn receiver_count(&self) -> usize {
            self.inner.receivers.get()
        }
    }
    impl<T: Clone> Receiver<T> {
        pub fn try_recv(&mut self) -> Result<T, error::TryRecvError> {
            let sent = self.inner.sent.get();
            if self.next < sent {
                if sent - self.next > 1 {
                    // capacity 1: older values were overwritten
                    let missed = sent - self.next - 1;
                    self.next = sent - 1;
                    return Err(error::TryRecvError::Lagged(missed));
                }
                let v = unsafe { (*self.inner.log.get())[(self.next % 2) as usize].clone() };
                self.next += 1;
                Ok(v.unwrap())
            } else if self.inner.senders.get() == 0 {
                Err(error::TryRecvError::Closed)
            } else {
                Err(error::TryRecvError::Empty)
            }
        }
        pub fn recv(&mut self) -> Recv<'_, T> {
            Recv { rx: self }
        }
        /// number of values this receiver has not seen yet (also 0 for a closed, drained channel)
        pub fn len(&self) -> usize {
            (self.inner.sent.get() - self.next) as usize
        }
        pub fn is_empty(&self) -> bool {
            self.len() == 0
        }
    }
    pub struct Recv<'a, T> {
        rx: &'a mut Receiver<T>,
    }
    impl<T: Clone> Future for Recv<'_, T> {
        type Output = Result<T, error::RecvError>;
        fn poll(mut self: Pin<&mut Self>, _cx: &mut Context<'_>) -> Poll<Self::Output> {
            match self.rx.try_recv() {
                Ok(v) => Poll::Ready(Ok(v)),
                Err(error::TryRecvError::Closed) => Poll::Ready(Err(error::RecvError::Closed)),
                Err(error::TryRecvError::Lagged(n)) => Poll::Ready(Err(error::RecvError::Lagged(n))),
                Err(error::TryRecvError::Empty) => Poll::Pending,
            }
        }
    }
}
