use crate::model;
use core::future::Future;
use core::pin::Pin;
use core::task::{Context, Poll};
pub use core::time::Duration;

pub mod error {
    /// Error returned by `timeout`.
    #[derive(Debug, PartialEq, Eq)]
    pub struct Elapsed(pub(crate) ());
    impl core::fmt::Display for Elapsed {
        fn fmt(&self, f: &mut core::fmt::Formatter<'_>) -> core::fmt::Result {
            f.write_str("deadline has elapsed")
        }
    }
    impl std::error::Error for Elapsed {}
}

/// Model of `tokio::time::Sleep`: completes at the first poll with
/// `now >= deadline`, deadline fixed at creation.
#[derive(Debug)]
pub struct Sleep {
    deadline: Duration,
    fired: bool,
}
impl Sleep {
    pub(crate) fn model_new(deadline: Duration) -> Sleep {
        Sleep { deadline, fired: false }
    }
    pub fn deadline_since_epoch(&self) -> Duration {
        self.deadline
    }
    pub fn is_elapsed(&self) -> bool {
        model::now() >= self.deadline
    }
    pub fn reset_after(self: Pin<&mut Self>, d: Duration) {
        let me = unsafe { self.get_unchecked_mut() };
        me.deadline = model::now().saturating_add(d);
        me.fired = false;
    }
}
impl Future for Sleep {
    type Output = ();
    fn poll(self: Pin<&mut Self>, _cx: &mut Context<'_>) -> Poll<()> {
        let me = unsafe { self.get_unchecked_mut() };
        if model::now() >= me.deadline {
            if !me.fired {
                me.fired = true;
                model::st().timers_fired += 1;
            }
            Poll::Ready(())
        } else {
            Poll::Pending
        }
    }
}
pub fn sleep(duration: Duration) -> Sleep {
    let s = model::st();
    s.sleeps_created += 1;
    s.last_sleep_duration = duration;
    s.total_slept_requested = s.total_slept_requested.saturating_add(duration);
    Sleep { deadline: s.now.saturating_add(duration), fired: false }
}

/// Model of `tokio::time::Timeout`: polls the value first, then the deadline.
pub struct Timeout<F> {
    value: F,
    deadline: Duration,
}
impl<F> Timeout<F> {
    pub(crate) fn model_new(value: F, deadline: Duration) -> Timeout<F> {
        Timeout { value, deadline }
    }
    pub fn get_ref(&self) -> &F {
        &self.value
    }
    pub fn into_inner(self) -> F {
        self.value
    }
}
impl<F: Future> Future for Timeout<F> {
    type Output = Result<F::Output, error::Elapsed>;
    fn poll(self: Pin<&mut Self>, cx: &mut Context<'_>) -> Poll<Self::Output> {
        let me = unsafe { self.get_unchecked_mut() };
        let v = unsafe { Pin::new_unchecked(&mut me.value) };
        if let Poll::Ready(x) = v.poll(cx) {
            return Poll::Ready(Ok(x));
        }
        if model::now() >= me.deadline {
            model::st().timers_fired += 1;
            Poll::Ready(Err(error::Elapsed(())))
        } else {
            Poll::Pending
        }
    }
}
pub fn timeout<F: Future>(duration: Duration, future: F) -> Timeout<F> {
    let s = model::st();
    s.timeouts_created += 1;
    s.last_timeout_duration = duration;
    Timeout { value: future, deadline: s.now.saturating_add(duration) }
}

// ------------------------------------------------------------------ interval
#[derive(Debug, Clone, Copy, PartialEq, Eq)]
pub enum MissedTickBehavior {
    Burst,
    Delay,
    Skip,
}
/// Model of `tokio::time::Interval`: the first tick completes immediately, the
/// following ones `period` apart.  With `Skip`, ticks that were missed are
/// skipped and the schedule stays aligned to the original grid.
#[derive(Debug)]
pub struct Interval {
    next: Duration,
    period: Duration,
    behavior: MissedTickBehavior,
}
pub struct Tick<'a> {
    iv: &'a mut Interval,
}
impl Interval {
    pub fn tick(&mut self) -> Tick<'_> {
        Tick { iv: self }
    }
    pub fn set_missed_tick_behavior(&mut self, b: MissedTickBehavior) {
        self.behavior = b;
    }
    pub fn period(&self) -> Duration {
        self.period
    }
}
impl<'a> Future for Tick<'a> {
    type Output = Instant;
    fn poll(self: Pin<&mut Self>, _cx: &mut Context<'_>) -> Poll<Instant> {
        let me = unsafe { self.get_unchecked_mut() };
        let now = model::now();
        if now >= me.iv.next {
            let fired = me.iv.next;
            let mut next = me.iv.next + me.iv.period;
            if me.iv.behavior != MissedTickBehavior::Burst {
                // Delay: next = now + period; Skip: next grid point after now.  The
                // model uses now + period for both (the harness advances the clock
                // by whole periods), stated in the harness bounds.
                if next <= now {
                    next = now + me.iv.period;
                }
            }
            me.iv.next = next;
            model::st().timers_fired += 1;
            Poll::Ready(Instant(fired))
        } else {
            Poll::Pending
        }
    }
}
pub fn interval(period: Duration) -> Interval {
    assert!(period > Duration::ZERO, "`period` must be non-zero.");
    Interval { next: model::now(), period, behavior: MissedTickBehavior::Burst }
}
/// Model of `tokio::time::Instant` (virtual time since the model's epoch).
#[derive(Debug, Clone, Copy, PartialEq, Eq, PartialOrd, Ord)]
pub struct Instant(Duration);
impl Instant {
    pub fn now() -> Instant {
        Instant(model::now())
    }
    pub fn elapsed(&self) -> Duration {
        model::now().saturating_sub(self.0)
    }
    pub fn duration_since(&self, earlier: Instant) -> Duration {
        self.0.saturating_sub(earlier.0)
    }
    pub fn saturating_duration_since(&self, earlier: Instant) -> Duration {
        self.0.saturating_sub(earlier.0)
    }
    /// None on overflow, as std's Instant
    pub fn checked_add(&self, d: Duration) -> Option<Instant> {
        self.0.checked_add(d).map(Instant)
    }
    pub fn checked_sub(&self, d: Duration) -> Option<Instant> {
        self.0.checked_sub(d).map(Instant)
    }
}
impl core::ops::Add<Duration> for Instant {
    type Output = Instant;
    fn add(self, d: Duration) -> Instant {
        Instant(self.0 + d)
    }
}
pub fn sleep_until(deadline: Instant) -> Sleep {
    let s = model::st();
    s.sleeps_created += 1;
    Sleep::model_new(deadline.0)
}
pub fn timeout_at<F: Future>(deadline: Instant, future: F) -> Timeout<F> {
    model::st().timeouts_created += 1;
    Timeout::model_new(future, deadline.0)
}
