use crate::model;
use core::future::Future;
use core::pin::Pin;
use core::task::{Context, Poll};
use std::sync::Arc;

pub(crate) struct Slot<T> {
    pub(crate) result: core::cell::UnsafeCell<Option<T>>,
    pub(crate) aborted: core::cell::Cell<bool>,
    pub(crate) finished: core::cell::Cell<bool>,
}
unsafe impl<T: Send> Send for Slot<T> {}
unsafe impl<T: Send> Sync for Slot<T> {}

/// Error of a cancelled (aborted) task.
#[derive(Debug)]
pub struct JoinError(());
impl JoinError {
    pub fn is_cancelled(&self) -> bool {
        true
    }
    pub fn is_panic(&self) -> bool {
        false
    }
    /// (model tasks never panic: Kani has no unwinding)
    pub fn into_panic(self) -> Box<dyn std::any::Any + Send + 'static> {
        Box::new(())
    }
    pub fn try_into_panic(self) -> Result<Box<dyn std::any::Any + Send + 'static>, JoinError> {
        Err(self)
    }
}
impl core::fmt::Display for JoinError {
    fn fmt(&self, f: &mut core::fmt::Formatter<'_>) -> core::fmt::Result {
        f.write_str("task was cancelled")
    }
}
impl std::error::Error for JoinError {}

pub struct JoinHandle<T> {
    pub(crate) slot: Arc<Slot<T>>,
    pub(crate) id: usize,
}
unsafe impl<T: Send> Send for JoinHandle<T> {}
unsafe impl<T: Send> Sync for JoinHandle<T> {}
impl<T> Unpin for JoinHandle<T> {}
impl<T> core::fmt::Debug for JoinHandle<T> {
    fn fmt(&self, f: &mut core::fmt::Formatter<'_>) -> core::fmt::Result {
        f.write_str("JoinHandle(model)")
    }
}
impl<T> JoinHandle<T> {
    /// Cancels the task: its future is dropped at once (tokio drops it at the
    /// task's next scheduling point; the model has no running tasks in between).
    pub fn abort(&self) {
        if !self.slot.finished.get() {
            self.slot.aborted.set(true);
            model::drop_task(self.id);
        }
    }
    pub fn is_finished(&self) -> bool {
        self.slot.finished.get() || self.slot.aborted.get()
    }
    pub fn model_task_id(&self) -> usize {
        self.id
    }
}
impl<T> Future for JoinHandle<T> {
    type Output = Result<T, JoinError>;
    fn poll(self: Pin<&mut Self>, _cx: &mut Context<'_>) -> Poll<Self::Output> {
        let v = unsafe { (*self.slot.result.get()).take() };
        if let Some(v) = v {
            return Poll::Ready(Ok(v));
        }
        if self.slot.aborted.get() {
            return Poll::Ready(Err(JoinError(())));
        }
        Poll::Pending
    }
}

/// The future stored in the task table: runs the user's future and deposits
/// its output in the JoinHandle's slot.
pub(crate) struct TaskFut<F: Future> {
    pub(crate) fut: F,
    pub(crate) slot: Arc<Slot<F::Output>>,
}
impl<F: Future> Future for TaskFut<F> {
    type Output = ();
    fn poll(self: Pin<&mut Self>, cx: &mut Context<'_>) -> Poll<()> {
        let me = unsafe { self.get_unchecked_mut() };
        let f = unsafe { Pin::new_unchecked(&mut me.fut) };
        match f.poll(cx) {
            Poll::Ready(v) => {
                unsafe { *me.slot.result.get() = Some(v) };
                me.slot.finished.set(true);
                Poll::Ready(())
            }
            Poll::Pending => Poll::Pending,
        }
    }
}

pub fn spawn<F>(future: F) -> JoinHandle<F::Output>
where
    F: Future + Send + 'static,
    F::Output: Send + 'static,
{
    let slot = Arc::new(Slot { result: core::cell::UnsafeCell::new(None), aborted: core::cell::Cell::new(false), finished: core::cell::Cell::new(false) });
    let t: Pin<Box<dyn Future<Output = ()>>> = Box::pin(TaskFut { fut: future, slot: slot.clone() });
    let id = model::push_task(t);
    JoinHandle { slot, id }
}
