//! Contract model of rand 0.9 (see Cargo.toml).  Draws are `kani::any()`
//! constrained to the documented range.  Every draw is logged in DRAWS so a
//! harness can check how many draws happened and from which generator.
#![allow(unexpected_cfgs)]

use core::ops::{Range, RangeInclusive};

pub mod ghost {
    //! Ghost state observable by harnesses (single-threaded under Kani).
    //!
    //! NOTE (Kani 0.68): a `static mut X: u32 = 0` of an *upstream* crate is
    //! merged with other constant allocations of identical bytes (observed:
    //! writing it changed `Duration::from_secs(1).subsec_nanos()`).  All ghost
    //! state therefore lives in ONE struct whose initialiser is unique.
    pub struct Ghost {
        pub magic: [u64; 2],
        pub draws: u32,
        pub thread_rng_used: u32,
        pub os_seeded: u32,
        pub seeded: u32,
        pub last_seed: u64,
        /// when `script_on`, draws replay these values instead of being arbitrary
        pub script: [f64; 8],
        pub script_u64: [u64; 8],
        pub script_on: bool,
        /// bounds of the last f64 range request and the value drawn from it
        pub last_lo: f64,
        pub last_hi: f64,
        pub last_f64: f64,
    }
    pub static mut G: Ghost = Ghost {
        magic: [0x52414e445f4d4f44, 0x454c5f47484f5354],
        draws: 0, thread_rng_used: 0, os_seeded: 0, seeded: 0, last_seed: 0,
        script: [0.0; 8], script_u64: [0; 8], script_on: false,
        last_lo: 0.0, last_hi: 0.0, last_f64: 0.0,
    };
    pub fn draws() -> u32 { unsafe { G.draws } }
    pub fn reset() { unsafe { G.draws = 0; G.thread_rng_used = 0; G.os_seeded = 0; G.seeded = 0; } }
}

#[cfg(kani)]
fn any_f64() -> f64 { kani::any() }
#[cfg(kani)]
fn any_u64() -> u64 { kani::any() }
#[cfg(not(kani))]
fn any_f64() -> f64 { 0.5 }
#[cfg(not(kani))]
fn any_u64() -> u64 { 0 }
#[cfg(kani)]
fn assume(b: bool) { kani::assume(b) }
#[cfg(not(kani))]
fn assume(_b: bool) {}

fn next_index() -> usize {
    unsafe {
        let i = ghost::G.draws;
        ghost::G.draws += 1;
        i as usize
    }
}

pub trait ModelStandard: Sized { fn draw() -> Self; }
impl ModelStandard for f64 {
    fn draw() -> f64 {
        let i = next_index();
        if unsafe { ghost::G.script_on } { return unsafe { ghost::G.script[i % 8] }; }
        let v = any_f64();
        assume(v >= 0.0 && v < 1.0);
        v
    }
}
impl ModelStandard for u64 { fn draw() -> u64 { next_index(); any_u64() } }
impl ModelStandard for u32 { fn draw() -> u32 { next_index(); any_u64() as u32 } }
impl ModelStandard for bool { fn draw() -> bool { next_index(); any_u64() & 1 == 1 } }

pub trait ModelRange<T> { fn pick(self) -> T; }
impl ModelRange<f64> for RangeInclusive<f64> {
    fn pick(self) -> f64 {
        let (lo, hi) = (*self.start(), *self.end());
        // rand panics on an empty / non-finite range; keep that contract
        assert!(lo <= hi, "rand: empty range");
        assert!(lo.is_finite() && hi.is_finite(), "rand: non-finite range");
        let i = next_index();
        if unsafe { ghost::G.script_on } {
            let t = unsafe { ghost::G.script[i % 8] };
            let v = lo + (hi - lo) * t;
            return if v > hi { hi } else { v };
        }
        let v = any_f64();
        assume(v >= lo && v <= hi);
        unsafe { ghost::G.last_lo = lo; ghost::G.last_hi = hi; ghost::G.last_f64 = v; }
        v
    }
}
impl ModelRange<f64> for Range<f64> {
    fn pick(self) -> f64 {
        assert!(self.start < self.end, "rand: empty range");
        next_index();
        let v = any_f64();
        assume(v >= self.start && v < self.end);
        v
    }
}
macro_rules! int_ranges { ($($t:ty),*) => {$(
    impl ModelRange<$t> for RangeInclusive<$t> {
        fn pick(self) -> $t {
            let (lo, hi) = (*self.start(), *self.end());
            assert!(lo <= hi, "rand: empty range");
            let i = next_index();
            if unsafe { ghost::G.script_on } {
                let span = (hi - lo) as u64;
                let s = unsafe { ghost::G.script_u64[i % 8] };
                return lo + (if span == u64::MAX { s } else { s % (span + 1) }) as $t;
            }
            let v = any_u64() as $t;
            assume(v >= lo && v <= hi);
            v
        }
    }
    impl ModelRange<$t> for Range<$t> {
        fn pick(self) -> $t {
            assert!(self.start < self.end, "rand: empty range");
            next_index();
            let v = any_u64() as $t;
            assume(v >= self.start && v < self.end);
            v
        }
    }
)*}}
int_ranges!(u64, usize, u32);

pub trait RngCore {}
pub trait Rng: RngCore {
    fn random<T: ModelStandard>(&mut self) -> T { T::draw() }
    fn random_range<T, R: ModelRange<T>>(&mut self, range: R) -> T { range.pick() }
    fn random_bool(&mut self, _p: f64) -> bool { bool::draw() }
}
impl<R: RngCore + ?Sized> Rng for R {}

pub trait SeedableRng: Sized {
    fn seed_from_u64(seed: u64) -> Self;
    fn from_os_rng() -> Self;
}

pub mod rngs {
    use super::*;
    #[derive(Clone, Debug)]
    pub struct StdRng { pub seeded: bool }
    impl RngCore for StdRng {}
    impl SeedableRng for StdRng {
        fn seed_from_u64(seed: u64) -> Self {
            unsafe { ghost::G.seeded += 1; ghost::G.last_seed = seed; }
            StdRng { seeded: true }
        }
        fn from_os_rng() -> Self {
            unsafe { ghost::G.os_seeded += 1; }
            StdRng { seeded: false }
        }
    }
    #[derive(Clone, Debug)]
    pub struct ThreadRng;
    impl RngCore for ThreadRng {}
}

/// `rand::rng()` — thread-local generator.
pub fn rng() -> rngs::ThreadRng {
    unsafe { ghost::G.thread_rng_used += 1; }
    rngs::ThreadRng
}
pub fn random<T: ModelStandard>() -> T { T::draw() }
pub mod prelude { pub use super::{Rng, RngCore, SeedableRng, rngs::StdRng, rngs::ThreadRng}; }
