//! Contract model of rand 0.9 (see Cargo.toml).  A draw is `kani::any()`
//! constrained to the documented range, or — in script mode — the value the
//! harness put at the generator's current *position*.  Each `StdRng` value
//! carries its own position (so a cloned/forked generator replays the same
//! positions, as a real PRNG clone replays the same stream); every draw is
//! logged with the position it consumed.
#![allow(unexpected_cfgs)]

use core::ops::{Range, RangeInclusive};

pub mod ghost {
    //! Ghost state observable by harnesses (single-threaded under Kani).
    //!
    //! NOTE (Kani 0.68): a `static mut X: u32 = 0` of an *upstream* crate is
    //! merged with other constant allocations of identical bytes (observed:
    //! writing it changed `Duration::from_secs(1).subsec_nanos()`).  All ghost
    //! state therefore lives in ONE struct whose initialiser is unique.
    pub struct Ghost {
        pub magic: [u64; 2],
        pub draws: u32,
        pub thread_rng_used: u32,
        pub os_seeded: u32,
        pub seeded: u32,
        pub last_seed: u64,
        /// position of the thread-local generator
        pub thread_pos: u32,
        /// when `script_on`, the draw at generator position p is script[p % 8]
        /// (f64 draws: a value in [0,1) scaled into the requested range)
        pub script: [f64; 8],
        pub script_u64: [u64; 8],
        pub script_on: bool,
        /// per-draw log: generator position consumed, value drawn
        pub pos_log: [u32; 8],
        pub f64_log: [f64; 8],
        pub u64_log: [u64; 8],
        /// bounds of the last f64 range request and the value drawn from it
        pub last_lo: f64,
        pub last_hi: f64,
        pub last_f64: f64,
    }
    pub static mut G: Ghost = Ghost {
        magic: [0x52414e445f4d4f44, 0x454c5f47484f5354],
        draws: 0, thread_rng_used: 0, os_seeded: 0, seeded: 0, last_seed: 0, thread_pos: 0,
        script: [0.0; 8], script_u64: [0; 8], script_on: false,
        pos_log: [0; 8], f64_log: [0.0; 8], u64_log: [0; 8],
        last_lo: 0.0, last_hi: 0.0, last_f64: 0.0,
    };
    pub fn g() -> &'static mut Ghost { unsafe { &mut *core::ptr::addr_of_mut!(G) } }
    pub fn draws() -> u32 { g().draws }
    pub fn reset_log() { let x = g(); x.draws = 0; }
}
use ghost::g;

#[cfg(kani)]
fn any_f64() -> f64 { kani::any() }
#[cfg(kani)]
fn any_u64() -> u64 { kani::any() }
#[cfg(not(kani))]
fn any_f64() -> f64 { 0.5 }
#[cfg(not(kani))]
fn any_u64() -> u64 { 0 }
#[cfg(kani)]
fn assume(b: bool) { kani::assume(b) }
#[cfg(not(kani))]
fn assume(_b: bool) {}

/// Register one draw taken at generator position `pos`; returns its index.
fn next_index(pos: usize) -> usize {
    let x = g();
    let i = x.draws as usize;
    x.draws += 1;
    if i < 8 { x.pos_log[i] = pos as u32; }
    i
}
fn log_f64(i: usize, v: f64) { if i < 8 { g().f64_log[i] = v; } }
fn log_u64(i: usize, v: u64) { if i < 8 { g().u64_log[i] = v; } }

pub trait ModelStandard: Sized { fn draw(pos: usize) -> Self; }
impl ModelStandard for f64 {
    fn draw(pos: usize) -> f64 {
        let i = next_index(pos);
        let v = if g().script_on { g().script[pos % 8] } else { any_f64() };
        assume(v >= 0.0 && v < 1.0);
        log_f64(i, v);
        v
    }
}
impl ModelStandard for u64 { fn draw(pos: usize) -> u64 { let i = next_index(pos); let v = if g().script_on { g().script_u64[pos % 8] } else { any_u64() }; log_u64(i, v); v } }
impl ModelStandard for u32 { fn draw(pos: usize) -> u32 { u64::draw(pos) as u32 } }
impl ModelStandard for bool { fn draw(pos: usize) -> bool { u64::draw(pos) & 1 == 1 } }

pub trait ModelRange<T> { fn pick(self, pos: usize) -> T; }
impl ModelRange<f64> for RangeInclusive<f64> {
    fn pick(self, pos: usize) -> f64 {
        let (lo, hi) = (*self.start(), *self.end());
        // rand panics on an empty / non-finite range; keep that contract
        assert!(lo <= hi, "rand: empty range");
        assert!(lo.is_finite() && hi.is_finite(), "rand: non-finite range");
        let i = next_index(pos);
        let v = if g().script_on {
            let t = g().script[pos % 8];
            let v = lo + (hi - lo) * t;
            if v > hi { hi } else { v }
        } else {
            let v = any_f64();
            assume(v >= lo && v <= hi);
            v
        };
        let x = g();
        x.last_lo = lo; x.last_hi = hi; x.last_f64 = v;
        log_f64(i, v);
        v
    }
}
impl ModelRange<f64> for Range<f64> {
    fn pick(self, pos: usize) -> f64 {
        assert!(self.start < self.end, "rand: empty range");
        let i = next_index(pos);
        let v = any_f64();
        assume(v >= self.start && v < self.end);
        log_f64(i, v);
        v
    }
}
macro_rules! int_ranges { ($($t:ty),*) => {$(
    impl ModelRange<$t> for RangeInclusive<$t> {
        fn pick(self, pos: usize) -> $t {
            let (lo, hi) = (*self.start(), *self.end());
            assert!(lo <= hi, "rand: empty range");
            let i = next_index(pos);
            let v = if g().script_on {
                let span = (hi - lo) as u64;
                let s = g().script_u64[pos % 8];
                lo + (if span == u64::MAX { s } else { s % (span + 1) }) as $t
            } else {
                let v = any_u64() as $t;
                assume(v >= lo && v <= hi);
                v
            };
            log_u64(i, v as u64);
            v
        }
    }
    impl ModelRange<$t> for Range<$t> {
        fn pick(self, pos: usize) -> $t {
            assert!(self.start < self.end, "rand: empty range");
            let i = next_index(pos);
            let v = if g().script_on {
                let span = (self.end - self.start) as u64;
                self.start + (g().script_u64[pos % 8] % span) as $t
            } else {
                let v = any_u64() as $t;
                assume(v >= self.start && v < self.end);
                v
            };
            log_u64(i, v as u64);
            v
        }
    }
)*}}
int_ranges!(u64, usize, u32);

pub trait RngCore {
    /// consume one position of this generator's stream
    fn model_next_pos(&mut self) -> usize;
}
pub trait Rng: RngCore {
    fn random<T: ModelStandard>(&mut self) -> T { let p = self.model_next_pos(); T::draw(p) }
    fn random_range<T, R: ModelRange<T>>(&mut self, range: R) -> T { let p = self.model_next_pos(); range.pick(p) }
    fn random_bool(&mut self, _p: f64) -> bool { let p = self.model_next_pos(); bool::draw(p) }
}
impl<R: RngCore + ?Sized> Rng for R {}

pub trait SeedableRng: Sized {
    fn seed_from_u64(seed: u64) -> Self;
    fn from_os_rng() -> Self;
}

pub mod rngs {
    use super::*;
    /// Seeded generator: a position in the stream determined by the seed.
    #[derive(Clone, Debug)]
    pub struct StdRng { pub seeded: bool, pub seed: u64, pub pos: usize }
    impl RngCore for StdRng {
        fn model_next_pos(&mut self) -> usize { let p = self.pos; self.pos += 1; p }
    }
    impl SeedableRng for StdRng {
        fn seed_from_u64(seed: u64) -> Self {
            let x = g();
            x.seeded += 1; x.last_seed = seed;
            StdRng { seeded: true, seed, pos: 0 }
        }
        fn from_os_rng() -> Self {
            g().os_seeded += 1;
            StdRng { seeded: false, seed: 0, pos: 0 }
        }
    }
    #[derive(Clone, Debug)]
    pub struct ThreadRng;
    impl RngCore for ThreadRng {
        fn model_next_pos(&mut self) -> usize { let x = g(); let p = x.thread_pos as usize; x.thread_pos += 1; p }
    }
}

/// `rand::rng()` — thread-local generator.
pub fn rng() -> rngs::ThreadRng {
    g().thread_rng_used += 1;
    rngs::ThreadRng
}
pub mod prelude { pub use super::{Rng, RngCore, SeedableRng, rngs::StdRng, rngs::ThreadRng}; }
